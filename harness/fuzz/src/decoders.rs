//! C06 libFuzzer target: the first byte selects a decoder, the rest is fed to it. Any panic
//! aborts (libFuzzer reports it), ASan watches memory safety, `-malloc_limit_mb` bounds a
//! single allocation.
#![no_main]
use bytes::{Bytes, BytesMut};
use libfuzzer_sys::fuzz_target;
use selium_std::codecs::{BincodeCodec, BytesCodec, StringCodec};
use selium_std::compression::{brotli::*, deflate::*, lz4::*, zstd::*};
use selium_std::traits::codec::MessageDecoder;
use selium_std::traits::compression::Decompress;
use serde::{Deserialize, Serialize};
use std::collections::HashMap;
use tokio_util::codec::Decoder;

#[derive(Debug, Serialize, Deserialize)]
enum Shape { Unit, Circle { r: u32 }, Poly(Vec<(i16, i16)>), Named(String, Option<Box<Shape>>) }
#[derive(Debug, Serialize, Deserialize)]
struct Record { id: u64, name: String, tags: Vec<String>, opt: Option<i32>, shape: Shape, blob: Vec<u8>, nested: Vec<Vec<u16>>, flag: bool, ch: char }

trait Norm { fn norm(self) -> Option<Vec<Bytes>>; }
impl Norm for Vec<Bytes> { fn norm(self) -> Option<Vec<Bytes>> { Some(self) } }
impl<E> Norm for Result<Vec<Bytes>, E> { fn norm(self) -> Option<Vec<Bytes>> { self.ok() } }

fn pipeline(d: Option<&dyn Decompress>, input: &[u8], bincode: bool) {
    let mut bytes = Bytes::copy_from_slice(input);
    if let Some(d) = d {
        match d.decompress(bytes) { Ok(b) => bytes = b, Err(_) => return }
    }
    if let Some(batch) = selium_protocol::utils::decode_message_batch(bytes).norm() {
        for m in batch {
            let mut mb = BytesMut::from(&m[..]);
            if bincode { let _ = BincodeCodec::<Record>::default().decode(&mut mb); } else { let _ = StringCodec.decode(&mut mb); }
        }
    }
}

fuzz_target!(|data: &[u8]| {
    if data.is_empty() { return; }
    let (t, input) = (data[0] % 14, &data[1..]);
    match t {
        0 => {
            let mut c = selium_protocol::MessageCodec;
            let mut src = BytesMut::from(input);
            loop {
                let before = src.len();
                match c.decode(&mut src) { Ok(Some(_)) => {}, _ => break }
                assert!(src.len() < before, "decoder made no progress");
            }
        }
        1 => { let _ = selium_protocol::utils::decode_message_batch(Bytes::copy_from_slice(input)).norm(); }
        2 => { let _ = StringCodec.decode(&mut BytesMut::from(input)); }
        3 => { let _ = BytesCodec.decode(&mut BytesMut::from(input)); }
        4 => { let _ = BincodeCodec::<Record>::default().decode(&mut BytesMut::from(input)); }
        5 => { let _ = BincodeCodec::<Vec<String>>::default().decode(&mut BytesMut::from(input)); }
        6 => { let _ = BincodeCodec::<HashMap<String, Vec<u8>>>::default().decode(&mut BytesMut::from(input)); }
        7 => { let _ = DeflateDecomp::gzip().decompress(Bytes::copy_from_slice(input)); }
        8 => { let _ = DeflateDecomp::zlib().decompress(Bytes::copy_from_slice(input)); }
        9 => { let _ = ZstdDecomp.decompress(Bytes::copy_from_slice(input)); }
        10 => { let _ = Lz4Decomp.decompress(Bytes::copy_from_slice(input)); }
        11 => pipeline(None, input, false),
        12 => pipeline(Some(&Lz4Decomp), input, true),
        _ => pipeline(Some(&DeflateDecomp::gzip()), input, true),
    }
});
