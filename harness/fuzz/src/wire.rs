//! C05 libFuzzer target: arbitrary bytes -> decoding must not depend on chunking, and every
//! frame that decodes must re-encode (truthful length prefix) and decode to an equal frame.
#![no_main]
use bytes::BytesMut;
use libfuzzer_sys::fuzz_target;
use selium_protocol::{Frame, MessageCodec};
use tokio_util::codec::{Decoder, Encoder};

fn decode_all(data: &[u8], cuts: &[u8]) -> (Vec<Frame>, bool, usize) {
    let mut c = MessageCodec;
    let mut src = BytesMut::new();
    let mut out = vec![];
    let (mut pos, mut ci, mut errored) = (0, 0, false);
    while pos < data.len() && !errored {
        let step = if cuts.is_empty() { data.len() } else { let s = cuts[ci % cuts.len()] as usize; ci += 1; s.max(1) };
        let end = (pos + step).min(data.len());
        src.extend_from_slice(&data[pos..end]);
        pos = end;
        loop {
            match c.decode(&mut src) {
                Ok(Some(f)) => out.push(f),
                Ok(None) => break,
                Err(_) => { errored = true; break; }
            }
        }
    }
    (out, errored, src.len())
}

fuzz_target!(|data: &[u8]| {
    if data.len() < 4 { return; }
    let ncuts = (data[0] % 4) as usize;
    let (cuts, body) = data[1..].split_at(ncuts.min(data.len() - 1));
    let (whole, e1, _) = decode_all(body, &[]);
    let (chunked, e2, _) = decode_all(body, cuts);
    assert_eq!(whole, chunked, "chunking changed the decoded frames");
    assert_eq!(e1, e2, "chunking changed whether an error is reported");
    for f in whole {
        let mut buf = BytesMut::new();
        let len = f.get_length().unwrap();
        assert!(len <= 1024 * 1024, "decoder yielded a frame above the limit");
        MessageCodec.encode(f.clone(), &mut buf).expect("a decoded frame is within the limit");
        assert_eq!(buf.len() as u64, 9 + len);
        assert_eq!(&buf[..8], &len.to_be_bytes());
        let back = MessageCodec.decode(&mut buf).unwrap().unwrap();
        assert_eq!(back, f);
        assert!(buf.is_empty());
    }
});
