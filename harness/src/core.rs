//! Shared engine: generated search (proptest runner used as a library), counting,
//! known-findings handling, replay files and evidence output.
use proptest::strategy::Strategy;
use proptest::test_runner::{Config, RngAlgorithm, RngSeed, TestCaseError, TestError, TestRunner};
use serde::{de::DeserializeOwned, Serialize};
use serde_json::{json, Map, Value};
use std::collections::hash_map::DefaultHasher;
use std::collections::{BTreeMap, HashSet};
use std::fmt::Debug;
use std::hash::{Hash, Hasher};
use std::path::{Path, PathBuf};
use std::sync::atomic::{AtomicBool, AtomicU64, Ordering};
use std::sync::{Arc, Mutex};
use std::time::Instant;

pub const VERIF_DIR: &str = "/verif";

#[derive(Clone, Copy, PartialEq, Eq, Debug)]
pub enum Tier {
    Quick,
    Thorough,
}
impl Tier {
    pub fn name(self) -> &'static str {
        match self {
            Tier::Quick => "quick",
            Tier::Thorough => "thorough",
        }
    }
    /// pick by tier
    pub fn pick<T>(self, q: T, t: T) -> T {
        match self {
            Tier::Quick => q,
            Tier::Thorough => t,
        }
    }
}

#[derive(Debug, Clone)]
pub enum Outcome {
    Pass { labels: Vec<&'static str>, nontrivial: bool },
    /// `clause` names the oracle clause (stable, no numbers); `detail` is free text
    Fail { clause: String, detail: String },
    /// harness could not decide (watchdog, resource limit): never a violation
    Inconclusive(String),
}
impl Outcome {
    pub fn pass(labels: Vec<&'static str>, nontrivial: bool) -> Self {
        Outcome::Pass { labels, nontrivial }
    }
    pub fn fail(clause: impl Into<String>, detail: impl Into<String>) -> Self {
        Outcome::Fail { clause: clause.into(), detail: detail.into() }
    }
    pub fn is_fail(&self) -> bool {
        matches!(self, Outcome::Fail { .. })
    }
}

pub trait Case: Debug + Clone + Serialize + DeserializeOwned + Hash + Send + 'static {}
impl<T: Debug + Clone + Serialize + DeserializeOwned + Hash + Send + 'static> Case for T {}

#[derive(Debug, Clone)]
pub struct Known {
    pub property: String,
    pub sig: String,
    pub text: String,
}

#[derive(Default)]
struct Stats {
    evaluations: u64,
    nontrivial: HashSet<u64>,
    classes: BTreeMap<String, u64>,
    samples: Vec<Value>,
    hit_known: BTreeMap<String, u64>,
    inconclusive: Vec<String>,
}
impl Stats {
    fn merge(&mut self, o: Stats, max_samples: usize) {
        self.evaluations += o.evaluations;
        self.nontrivial.extend(o.nontrivial);
        for (k, v) in o.classes {
            *self.classes.entry(k).or_default() += v;
        }
        for s in o.samples {
            if self.samples.len() < max_samples {
                self.samples.push(s);
            }
        }
        for (k, v) in o.hit_known {
            *self.hit_known.entry(k).or_default() += v;
        }
        self.inconclusive.extend(o.inconclusive);
    }
}

pub struct Violation {
    pub leg: String,
    pub clause: String,
    pub detail: String,
    pub replay: PathBuf,
}

pub struct Ctx {
    pub id: &'static str,
    pub tier: Tier,
    pub seed: u64,
    pub level: &'static str,
    pub workers: usize,
    start: Instant,
    stats: Stats,
    legs: Map<String, Value>,
    pub rule: String,
    pub assumptions: Vec<String>,
    pub violations: Vec<Violation>,
    pub known: Vec<Known>,
    pub excluded_by_construction: u64,
    pub extra: Map<String, Value>,
    pub exhaustive: Option<bool>,
    pub shrink_iters: u32,
    known_reported: HashSet<String>,
}

pub fn hash_of<T: Hash>(t: &T) -> u64 {
    let mut h = DefaultHasher::new();
    t.hash(&mut h);
    h.finish()
}

pub fn mix(a: u64, b: u64) -> u64 {
    let mut x = a ^ b.wrapping_mul(0x9E37_79B9_7F4A_7C15);
    x ^= x >> 30;
    x = x.wrapping_mul(0xBF58_476D_1CE4_E5B9);
    x ^= x >> 27;
    x = x.wrapping_mul(0x94D0_49BB_1331_11EB);
    x ^= x >> 31;
    x
}

fn seed_bytes(seed: u64) -> Vec<u8> {
    let mut v = Vec::with_capacity(32);
    for i in 0..4u64 {
        v.extend_from_slice(&mix(seed, i + 1).to_le_bytes());
    }
    v
}

pub fn load_known(property: &str) -> Vec<Known> {
    let path = Path::new(VERIF_DIR).join("KNOWN_FINDINGS.txt");
    let mut out = vec![];
    if let Ok(s) = std::fs::read_to_string(path) {
        for line in s.lines() {
            let line = line.trim();
            if let Some(rest) = line.strip_prefix("known:") {
                let rest = rest.trim();
                let mut prop = None;
                let mut sig = None;
                let mut text = vec![];
                for tok in rest.split_whitespace() {
                    if prop.is_none() && tok.starts_with("property=") {
                        prop = Some(tok["property=".len()..].to_string());
                    } else if sig.is_none() && tok.starts_with("sig=") {
                        sig = Some(tok["sig=".len()..].to_string());
                    } else {
                        text.push(tok);
                    }
                }
                if let (Some(p), Some(s)) = (prop, sig) {
                    if p == property {
                        out.push(Known { property: p, sig: s, text: text.join(" ") });
                    }
                }
            }
        }
    }
    out
}

/// signature of a failure: leg + clause with digits removed (stable across shrink results)
pub fn signature(leg: &str, clause: &str) -> String {
    let c: String = clause
        .chars()
        .map(|c| if c.is_whitespace() { '_' } else { c })
        .filter(|c| !c.is_ascii_digit())
        .collect();
    format!("{leg}/{c}")
}

impl Ctx {
    pub fn new(id: &'static str, tier: Tier, seed: u64, level: &'static str) -> Self {
        let workers = std::env::var("VERIF_WORKERS")
            .ok()
            .and_then(|s| s.parse().ok())
            .unwrap_or_else(|| std::thread::available_parallelism().map(|n| n.get()).unwrap_or(4).min(16));
        Ctx {
            id,
            tier,
            seed,
            level,
            workers,
            start: Instant::now(),
            stats: Stats::default(),
            legs: Map::new(),
            rule: String::new(),
            assumptions: vec![],
            violations: vec![],
            known: load_known(id),
            excluded_by_construction: 0,
            extra: Map::new(),
            exhaustive: None,
            shrink_iters: 20_000,
            known_reported: HashSet::new(),
        }
    }

    pub fn failed(&self) -> bool {
        !self.violations.is_empty()
    }

    fn is_known(&self, sig: &str) -> bool {
        self.known.iter().any(|k| k.sig == sig)
    }

    fn write_replay<C: Serialize>(&self, leg: &str, case: &C, clause: &str, detail: &str) -> PathBuf {
        let dir = Path::new(VERIF_DIR).join("replays");
        let _ = std::fs::create_dir_all(&dir);
        let v = json!({
            "property": self.id, "leg": leg, "case": case, "clause": clause, "detail": detail,
            "seed": self.seed, "tier": self.tier.name(),
        });
        let h = hash_of(&v.to_string());
        let path = dir.join(format!("{}-{}-{:08x}.json", self.id, leg.replace('/', "_"), h as u32));
        let _ = std::fs::write(&path, serde_json::to_string_pretty(&v).unwrap());
        path
    }

    fn record_violation<C: Serialize>(&mut self, leg: &str, case: &C, clause: &str, detail: &str) {
        let sig = signature(leg, clause);
        if self.is_known(&sig) {
            if self.known_reported.insert(sig.clone()) {
                let k = self.known.iter().find(|k| k.sig == sig).unwrap();
                println!("KNOWN-FINDING: property={} sig={} {}", self.id, sig, k.text);
            }
            return;
        }
        let replay = self.write_replay(leg, case, clause, detail);
        println!("VIOLATION property={} replay={}", self.id, replay.display());
        println!("  leg={leg} clause={clause}");
        let d: String = detail.chars().take(1500).collect();
        println!("  detail: {d}");
        self.violations.push(Violation { leg: leg.into(), clause: clause.into(), detail: detail.into(), replay });
    }

    /// Generated search of one leg: `cases` cases in total, spread over worker threads
    /// (each with its own proptest runner and derived seed). Shrinks the first failure
    /// whose signature is not a known finding.
    pub fn search<C, S, M, F>(&mut self, leg: &str, mk: M, cases: u32, parallel: bool, eval: F)
    where
        C: Case,
        S: Strategy<Value = C>,
        M: Fn() -> S + Send + Sync + 'static,
        F: Fn(&C) -> Outcome + Send + Sync + 'static,
    {
        let mk = Arc::new(mk);
        if let Ok(only) = std::env::var("VERIF_LEGS") {
            if !only.split(',').any(|l| l == leg) {
                return;
            }
        }
        let t0 = Instant::now();
        let workers = if parallel { self.workers.max(1).min(cases.max(1) as usize) } else { 1 };
        let per = (cases as usize + workers - 1) / workers;
        let eval = Arc::new(eval);
        let stop = Arc::new(AtomicBool::new(false));
        let known: Arc<Vec<String>> = Arc::new(self.known.iter().map(|k| k.sig.clone()).collect());
        let legname = leg.to_string();
        let shrink_iters = self.shrink_iters;
        let mut handles = vec![];
        for w in 0..workers {
            let eval = eval.clone();
            let mk = mk.clone();
            let stop = stop.clone();
            let known = known.clone();
            let legname = legname.clone();
            let seed = mix(mix(self.seed, hash_of(&legname)), w as u64);
            let h = std::thread::Builder::new()
                .stack_size(64 << 20)
                .spawn(move || {
                    let strat = mk();
                    let mut cfg = Config::default();
                    cfg.cases = per as u32;
                    cfg.failure_persistence = None;
                    cfg.rng_algorithm = RngAlgorithm::ChaCha;
                    cfg.rng_seed = RngSeed::Fixed(seed);
                    cfg.max_shrink_iters = shrink_iters;
                    cfg.max_global_rejects = 1_000_000;
                    cfg.verbose = 0;
                    cfg.source_file = None;
                    let _ = seed_bytes;
                    let mut runner = TestRunner::new(cfg);
                    let stats = Mutex::new(Stats::default());
                    let failed = AtomicBool::new(false);
                    let last_fail: Mutex<Option<(String, String)>> = Mutex::new(None);
                    let n = AtomicU64::new(0);
                    let res = runner.run(&strat, |case| {
                        if stop.load(Ordering::Relaxed) && !failed.load(Ordering::Relaxed) {
                            // another worker found a violation; finish quickly
                            return Ok(());
                        }
                        let out = eval(&case);
                        let counting = !failed.load(Ordering::Relaxed);
                        match out {
                            Outcome::Pass { labels, nontrivial } => {
                                if counting {
                                    let mut s = stats.lock().unwrap();
                                    s.evaluations += 1;
                                    for l in &labels {
                                        *s.classes.entry((*l).to_string()).or_default() += 1;
                                    }
                                    if nontrivial {
                                        let h = hash_of(&case);
                                        if s.nontrivial.insert(h) && s.samples.len() < 2 {
                                            let idx = n.fetch_add(1, Ordering::Relaxed);
                                            if idx < 2 {
                                                s.samples.push(sample_value(&case, &labels));
                                            }
                                        }
                                    }
                                }
                                Ok(())
                            }
                            Outcome::Inconclusive(why) => {
                                if counting {
                                    let mut s = stats.lock().unwrap();
                                    s.evaluations += 1;
                                    if s.inconclusive.len() < 20 {
                                        let cj: String = serde_json::to_string(&case).unwrap_or_default().chars().take(600).collect();
                                        s.inconclusive.push(format!("{why} case={cj}"));
                                    }
                                }
                                Ok(())
                            }
                            Outcome::Fail { clause, detail } => {
                                let sig = signature(&legname, &clause);
                                if known.iter().any(|k| *k == sig) {
                                    // listed finding: count, do not stop the search
                                    if counting {
                                        let mut s = stats.lock().unwrap();
                                        s.evaluations += 1;
                                        *s.hit_known.entry(sig).or_default() += 1;
                                    }
                                    return Ok(());
                                }
                                if counting {
                                    stats.lock().unwrap().evaluations += 1;
                                    // only the first worker that fails shrinks and reports
                                    if stop.swap(true, Ordering::SeqCst) {
                                        return Ok(());
                                    }
                                }
                                failed.store(true, Ordering::Relaxed);
                                *last_fail.lock().unwrap() = Some((clause.clone(), detail.clone()));
                                Err(TestCaseError::fail(format!("{clause}")))
                            }
                        }
                    });
                    let fail = match res {
                        Ok(()) => None,
                        Err(TestError::Fail(_, case)) => {
                            // re-evaluate the shrunk case to get its own clause/detail
                            let (clause, detail) = match eval(&case) {
                                Outcome::Fail { clause, detail } => (clause, detail),
                                _ => last_fail.lock().unwrap().clone().unwrap_or(("unstable".into(), "shrunk case no longer fails; reporting last failing evaluation".into())),
                            };
                            Some((case, clause, detail))
                        }
                        Err(TestError::Abort(r)) => {
                            stats.lock().unwrap().inconclusive.push(format!("proptest abort: {r}"));
                            None
                        }
                    };
                    (stats.into_inner().unwrap(), fail)
                })
                .unwrap();
            handles.push(h);
        }
        let mut legstats = Stats::default();
        let mut fails = vec![];
        for h in handles {
            match h.join() {
                Ok((s, f)) => {
                    legstats.merge(s, 4);
                    if let Some(f) = f {
                        fails.push(f);
                    }
                }
                Err(_) => legstats.inconclusive.push("worker thread panicked".into()),
            }
        }
        // report the smallest failing case (by serialized size) only
        fails.sort_by_key(|(c, _, _)| serde_json::to_string(c).map(|s| s.len()).unwrap_or(usize::MAX));
        if let Some((case, clause, detail)) = fails.into_iter().next() {
            self.record_violation(leg, &case, &clause, &detail);
        }
        self.legs.insert(
            leg.to_string(),
            json!({
                "evaluations": legstats.evaluations,
                "distinct_nontrivial": legstats.nontrivial.len(),
                "classes": legstats.classes,
                "wall_s": t0.elapsed().as_secs_f64(),
                "workers": workers,
            }),
        );
        // leg-qualified hashes so that distinct cases of different legs do not collide
        let lh = hash_of(&leg);
        let mut st = legstats;
        st.nontrivial = st.nontrivial.into_iter().map(|h| mix(h, lh)).collect();
        let classes = std::mem::take(&mut st.classes);
        for (k, v) in classes {
            *st.classes.entry(format!("{leg}:{k}")).or_default() += v;
        }
        self.stats.merge(st, 6);
    }

    /// Bounded-exhaustive enumeration of a finite family of cases.
    pub fn enumerate<C, I, F>(&mut self, leg: &str, all: I, eval: F)
    where
        C: Case,
        I: Iterator<Item = C>,
        F: Fn(&C) -> Outcome,
    {
        if let Ok(only) = std::env::var("VERIF_LEGS") {
            if !only.split(',').any(|l| l == leg) {
                return;
            }
        }
        let t0 = Instant::now();
        let mut st = Stats::default();
        let mut first_fail: Option<(C, String, String)> = None;
        let lh = hash_of(&leg);
        for case in all {
            st.evaluations += 1;
            match eval(&case) {
                Outcome::Pass { labels, nontrivial } => {
                    for l in &labels {
                        *st.classes.entry(format!("{leg}:{l}")).or_default() += 1;
                    }
                    if nontrivial {
                        if st.nontrivial.insert(mix(hash_of(&case), lh)) && st.samples.len() < 2 {
                            st.samples.push(sample_value(&case, &labels));
                        }
                    }
                }
                Outcome::Inconclusive(w) => {
                    if st.inconclusive.len() < 20 {
                        st.inconclusive.push(w)
                    }
                }
                Outcome::Fail { clause, detail } => {
                    let sig = signature(leg, &clause);
                    if self.is_known(&sig) {
                        *st.hit_known.entry(sig).or_default() += 1;
                        continue;
                    }
                    // enumeration goes from short to long: the first failure is minimal
                    if first_fail.is_none() {
                        first_fail = Some((case, clause, detail));
                        break;
                    }
                }
            }
        }
        if let Some((case, clause, detail)) = first_fail {
            self.record_violation(leg, &case, &clause, &detail);
        }
        self.legs.insert(
            leg.to_string(),
            json!({"evaluations": st.evaluations, "distinct_nontrivial": st.nontrivial.len(),
                   "wall_s": t0.elapsed().as_secs_f64(), "enumerated": true}),
        );
        self.stats.merge(st, 8);
    }

    /// Record one directly evaluated case (used by legs that drive their own loop, e.g.
    /// network legs that run cases concurrently on a runtime).
    pub fn record<C: Case>(&mut self, leg: &str, case: &C, out: Outcome) {
        self.stats.evaluations += 1;
        let e = self.legs.entry(leg.to_string()).or_insert_with(|| json!({"evaluations": 0u64, "distinct_nontrivial": 0u64}));
        e["evaluations"] = json!(e["evaluations"].as_u64().unwrap_or(0) + 1);
        match out {
            Outcome::Pass { labels, nontrivial } => {
                for l in &labels {
                    *self.stats.classes.entry(format!("{leg}:{l}")).or_default() += 1;
                }
                if nontrivial && self.stats.nontrivial.insert(mix(hash_of(case), hash_of(&leg))) {
                    let e = self.legs.get_mut(leg).unwrap();
                    e["distinct_nontrivial"] = json!(e["distinct_nontrivial"].as_u64().unwrap_or(0) + 1);
                    if self.stats.samples.len() < 6 {
                        self.stats.samples.push(sample_value(case, &labels));
                    }
                }
            }
            Outcome::Inconclusive(w) => self.stats.inconclusive.push(format!("{leg}: {w}")),
            Outcome::Fail { clause, detail } => {
                let sig = signature(leg, &clause);
                if self.is_known(&sig) {
                    *self.stats.hit_known.entry(sig.clone()).or_default() += 1;
                }
                self.record_violation(leg, case, &clause, &detail);
            }
        }
    }

    pub fn note_class(&mut self, class: &str, n: u64) {
        *self.stats.classes.entry(class.to_string()).or_default() += n;
    }
    pub fn add_evaluations(&mut self, n: u64) {
        self.stats.evaluations += n;
    }
    pub fn add_sample(&mut self, v: Value) {
        if self.stats.samples.len() < 10 {
            self.stats.samples.push(v);
        }
    }
    pub fn add_nontrivial_hash(&mut self, h: u64) {
        self.stats.nontrivial.insert(h);
    }
    pub fn inconclusive(&mut self, why: String) {
        self.stats.inconclusive.push(why);
    }
    pub fn class_count(&self, class: &str) -> u64 {
        self.stats.classes.get(class).copied().unwrap_or(0)
    }
    pub fn evaluations(&self) -> u64 {
        self.stats.evaluations
    }
    pub fn nontrivial_count(&self) -> usize {
        self.stats.nontrivial.len()
    }
    /// a child process already printed the VIOLATION line and wrote the replay
    pub fn mark_external_violation(&mut self, leg: &str) {
        self.violations.push(Violation { leg: leg.into(), clause: "reported-by-child".into(), detail: String::new(), replay: PathBuf::new() });
    }
    pub fn report_violation_raw<C: Serialize>(&mut self, leg: &str, case: &C, clause: &str, detail: &str) {
        self.record_violation(leg, case, clause, detail)
    }

    /// Writes the evidence file and returns the process exit code.
    pub fn finish(mut self) -> i32 {
        let wall = self.start.elapsed().as_secs_f64();
        for k in &self.known {
            if self.stats.hit_known.get(&k.sig).copied().unwrap_or(0) > 0 && self.known_reported.insert(k.sig.clone()) {
                println!("KNOWN-FINDING: property={} sig={} {}", self.id, k.sig, k.text);
            }
        }
        let mut coverage = Map::new();
        coverage.insert("evaluations".into(), json!(self.stats.evaluations));
        coverage.insert("distinct_nontrivial".into(), json!(self.stats.nontrivial.len()));
        coverage.insert("rule".into(), json!(self.rule));
        coverage.insert("samples".into(), json!(self.stats.samples));
        coverage.insert("classes".into(), json!(self.stats.classes));
        coverage.insert("legs".into(), Value::Object(std::mem::take(&mut self.legs)));
        coverage.insert("excluded_by_construction".into(), json!(self.excluded_by_construction));
        coverage.insert("hit_known".into(), json!(self.stats.hit_known));
        coverage.insert("inconclusive".into(), json!(self.stats.inconclusive));
        if let Some(e) = self.exhaustive {
            coverage.insert("exhaustive".into(), json!(e));
        }
        for (k, v) in std::mem::take(&mut self.extra) {
            coverage.insert(k, v);
        }
        let ev = json!({
            "property_id": self.id,
            "tier": self.tier.name(),
            "seed": self.seed,
            "level": self.level,
            "coverage": Value::Object(coverage),
            "assumptions": self.assumptions,
            "wall_s": wall,
            "violations": self.violations.len(),
        });
        let dir = Path::new(VERIF_DIR).join("evidence");
        let _ = std::fs::create_dir_all(&dir);
        let path = dir.join(format!("{}.json", self.id));
        if let Err(e) = std::fs::write(&path, serde_json::to_string_pretty(&ev).unwrap()) {
            eprintln!("cannot write evidence {}: {e}", path.display());
            return 2;
        }
        println!(
            "{} {}: evaluations={} distinct_nontrivial={} violations={} inconclusive={} wall={:.1}s",
            self.id,
            self.tier.name(),
            self.stats.evaluations,
            self.stats.nontrivial.len(),
            self.violations.len(),
            self.stats.inconclusive.len(),
            wall
        );
        if !self.violations.is_empty() {
            1
        } else if !self.stats.inconclusive.is_empty() && (self.stats.nontrivial.len() < 2 || self.stats.inconclusive.len() as u64 * 4 > self.stats.evaluations) {
            for w in self.stats.inconclusive.iter().take(5) {
                eprintln!("inconclusive: {w}");
            }
            2
        } else {
            0
        }
    }
}

fn sample_value<C: Serialize>(case: &C, labels: &[&'static str]) -> Value {
    let v = serde_json::to_value(case).unwrap_or(Value::Null);
    let s = v.to_string();
    let v = if s.len() > 3000 { Value::String(format!("{}…(truncated, {} bytes)", &s[..s.char_indices().take_while(|(i, _)| *i < 3000).last().map(|(i, _)| i).unwrap_or(0)], s.len())) } else { v };
    json!({"case": v, "labels": labels})
}

/// Replay a stored case `repeats` times through `eval`; returns exit code.
pub fn replay_case<C: Case>(property: &str, case_json: &Value, repeats: u32, eval: impl Fn(&C) -> Outcome) -> i32 {
    let case: C = match serde_json::from_value(case_json.clone()) {
        Ok(c) => c,
        Err(e) => {
            eprintln!("replay: cannot parse case: {e}");
            return 2;
        }
    };
    for i in 0..repeats {
        match eval(&case) {
            Outcome::Fail { clause, detail } => {
                println!("replay {i}: FAIL clause={clause}\n  {detail}");
                let path = std::env::var("VERIF_REPLAY_PATH").unwrap_or_else(|_| "<given>".into());
                println!("VIOLATION property={property} replay={path}");
                return 1;
            }
            Outcome::Inconclusive(w) => {
                println!("replay {i}: inconclusive: {w}");
                return 2;
            }
            Outcome::Pass { .. } => {}
        }
    }
    println!("replay: {repeats} run(s) passed");
    0
}

/// Quiet panic hook that records the last panic message and location per thread and in
/// a process-wide log (for panics inside server tasks on other threads).
pub mod panics {
    use std::cell::RefCell;
    use std::sync::Mutex;
    thread_local! { static LAST: RefCell<Option<String>> = RefCell::new(None); }
    pub static GLOBAL: Mutex<Vec<String>> = Mutex::new(Vec::new());
    pub fn install() {
        std::panic::set_hook(Box::new(|info| {
            let msg = if let Some(s) = info.payload().downcast_ref::<&str>() {
                s.to_string()
            } else if let Some(s) = info.payload().downcast_ref::<String>() {
                s.clone()
            } else {
                "<non-string panic>".to_string()
            };
            let loc = info.location().map(|l| format!("{}:{}", l.file(), l.line())).unwrap_or_default();
            let full = format!("{msg} @ {loc}");
            LAST.with(|l| *l.borrow_mut() = Some(full.clone()));
            if let Ok(mut g) = GLOBAL.lock() {
                if g.len() < 1000 {
                    g.push(full);
                }
            }
        }));
    }
    pub fn take_last() -> Option<String> {
        LAST.with(|l| l.borrow_mut().take())
    }
    pub fn global_len() -> usize {
        GLOBAL.lock().map(|g| g.len()).unwrap_or(0)
    }
    pub fn global_since(n: usize) -> Vec<String> {
        GLOBAL.lock().map(|g| g[n.min(g.len())..].to_vec()).unwrap_or_default()
    }
    /// Normalised panic text: message without digits + file without line
    pub fn normalise(p: &str) -> String {
        let (msg, loc) = p.rsplit_once(" @ ").unwrap_or((p, ""));
        let file = loc.rsplit_once(':').map(|(f, _)| f).unwrap_or(loc);
        let file = file.rsplit("/src/").next().unwrap_or(file);
        let m: String = msg.chars().filter(|c| !c.is_ascii_digit()).take(60).collect();
        format!("{m}@{file}")
    }
}

/// Run `f` under catch_unwind, returning Err(normalised panic) if it panicked.
pub fn catch<R>(f: impl FnOnce() -> R) -> Result<R, String> {
    let _ = panics::take_last();
    match std::panic::catch_unwind(std::panic::AssertUnwindSafe(f)) {
        Ok(r) => Ok(r),
        Err(e) => {
            let fallback = e
                .downcast_ref::<String>()
                .cloned()
                .or(e.downcast_ref::<&str>().map(|s| s.to_string()))
                .unwrap_or_else(|| "<panic>".into());
            Err(panics::take_last().unwrap_or(fallback))
        }
    }
}

/// Watchdog: if `tick()` is not called for `secs`, the process exits 2 (inconclusive).
pub mod watchdog {
    use std::sync::atomic::{AtomicU64, Ordering};
    use std::time::{Duration, SystemTime, UNIX_EPOCH};
    static LAST: AtomicU64 = AtomicU64::new(0);
    fn now() -> u64 {
        SystemTime::now().duration_since(UNIX_EPOCH).map(|d| d.as_secs()).unwrap_or(0)
    }
    pub fn tick() {
        LAST.store(now(), Ordering::Relaxed);
    }
    pub fn start(secs: u64, what: &'static str) {
        tick();
        std::thread::spawn(move || loop {
            std::thread::sleep(Duration::from_secs(1));
            let l = LAST.load(Ordering::Relaxed);
            if now().saturating_sub(l) > secs {
                eprintln!("WATCHDOG: no progress for {secs}s in {what}: inconclusive (exit 2)");
                std::process::exit(2);
            }
        });
    }
}

/// Monotone index mapping (never `%`, so that shrinking the selector shrinks the index)
pub fn pick_idx(sel: u16, len: usize) -> usize {
    debug_assert!(len > 0);
    ((sel as usize) * len) >> 16
}
