//! Coverage-guided leg (thorough tier of C05 / C06): builds the libFuzzer targets in
//! /verif/harness/fuzz with the sanitizer-coverage flags (cargo-fuzz itself cannot build
//! them here, see DESIGN §2) and runs bounded campaigns.
use crate::core::{Ctx, VERIF_DIR};
use std::path::{Path, PathBuf};
use std::process::Command;

const RUSTFLAGS: &str = "-Cpasses=sancov-module -Cllvm-args=-sanitizer-coverage-level=4 -Cllvm-args=-sanitizer-coverage-inline-8bit-counters -Cllvm-args=-sanitizer-coverage-pc-table -Cllvm-args=-sanitizer-coverage-trace-compares -Zsanitizer=address -Cdebug-assertions -Ccodegen-units=1";

fn fuzz_dir() -> PathBuf {
    Path::new(VERIF_DIR).join("harness").join("fuzz")
}
pub fn binary(target: &str) -> PathBuf {
    fuzz_dir().join("target").join("x86_64-unknown-linux-gnu").join("release").join(target)
}

pub fn build() -> Result<(), String> {
    let out = Command::new("cargo")
        .args(["+nightly", "build", "--release", "--offline", "--target", "x86_64-unknown-linux-gnu"])
        .current_dir(fuzz_dir())
        .env("RUSTFLAGS", RUSTFLAGS)
        .env("CARGO_NET_OFFLINE", "true")
        .output()
        .map_err(|e| format!("cannot run cargo +nightly: {e}"))?;
    if !out.status.success() {
        let err = String::from_utf8_lossy(&out.stderr);
        let tail: String = err.lines().rev().take(25).collect::<Vec<_>>().into_iter().rev().collect::<Vec<_>>().join("\n");
        return Err(format!("fuzz target build failed:\n{tail}"));
    }
    Ok(())
}

/// Runs `jobs` campaigns of `runs` executions each. A crash artifact becomes a violation
/// whose replay file is the crashing input.
pub fn campaign(ctx: &mut Ctx, leg: &str, target: &str, runs: u64, jobs: usize, max_len: usize, malloc_limit_mb: usize) {
    if let Ok(only) = std::env::var("VERIF_LEGS") {
        if !only.split(',').any(|l| l == leg) {
            return;
        }
    }
    if let Err(e) = build() {
        ctx.inconclusive(format!("{leg}: {e}"));
        return;
    }
    let bin = binary(target);
    let work = Path::new(VERIF_DIR).join("work").join(format!("{}-fuzz-{target}", std::process::id()));
    let _ = std::fs::remove_dir_all(&work);
    let seed_corpus = Path::new(VERIF_DIR).join("corpus").join(target);
    let mut children = vec![];
    for j in 0..jobs {
        let dir = work.join(format!("job{j}"));
        let corpus = dir.join("corpus");
        let arts = dir.join("artifacts");
        let _ = std::fs::create_dir_all(&corpus);
        let _ = std::fs::create_dir_all(&arts);
        if let Ok(rd) = std::fs::read_dir(&seed_corpus) {
            for e in rd.flatten() {
                let _ = std::fs::copy(e.path(), corpus.join(e.file_name()));
            }
        }
        let seed = (crate::core::mix(ctx.seed, j as u64 + 1) % 0x7fff_fffe) + 1;
        let child = Command::new(&bin)
            .arg(&corpus)
            .args([
                format!("-runs={runs}"),
                format!("-seed={seed}"),
                "-len_control=0".to_string(),
                format!("-max_len={max_len}"),
                format!("-malloc_limit_mb={malloc_limit_mb}"),
                "-rss_limit_mb=4096".to_string(),
                "-timeout=25".to_string(),
                "-print_final_stats=1".to_string(),
                format!("-artifact_prefix={}/", arts.display()),
            ])
            .env("ASAN_OPTIONS", "detect_leaks=0:allocator_may_return_null=1")
            .stdout(std::process::Stdio::null())
            .stderr(std::process::Stdio::piped())
            .spawn();
        match child {
            Ok(c) => children.push((j, c, arts)),
            Err(e) => ctx.inconclusive(format!("{leg}: cannot start {}: {e}", bin.display())),
        }
    }
    let mut total_execs = 0u64;
    let mut crashes: Vec<PathBuf> = vec![];
    let mut cov = 0u64;
    for (j, c, arts) in children {
        crate::core::watchdog::tick();
        let out = match c.wait_with_output() {
            Ok(o) => o,
            Err(e) => {
                ctx.inconclusive(format!("{leg}: job {j}: {e}"));
                continue;
            }
        };
        crate::core::watchdog::tick();
        let err = String::from_utf8_lossy(&out.stderr);
        for l in err.lines() {
            if let Some(v) = l.strip_prefix("stat::number_of_executed_units:") {
                total_execs += v.trim().parse::<u64>().unwrap_or(0);
            }
            if l.contains(" cov: ") {
                if let Some(v) = l.split(" cov: ").nth(1).and_then(|x| x.split_whitespace().next()).and_then(|x| x.parse::<u64>().ok()) {
                    cov = cov.max(v);
                }
            }
        }
        if let Ok(rd) = std::fs::read_dir(&arts) {
            for e in rd.flatten() {
                crashes.push(e.path());
            }
        }
        if !out.status.success() && crashes.is_empty() {
            let tail: String = err.lines().rev().take(12).collect::<Vec<_>>().into_iter().rev().collect::<Vec<_>>().join(" | ");
            ctx.inconclusive(format!("{leg}: job {j} exited with {} without an artifact: {tail}", out.status));
        }
    }
    ctx.add_evaluations(total_execs);
    ctx.extra.insert(leg.to_string(), serde_json::json!({"engine": "libFuzzer (sancov + ASan, built without --cfg fuzzing)", "target": target, "jobs": jobs, "runs_per_job": runs, "executions": total_execs, "max_len": max_len, "malloc_limit_mb": malloc_limit_mb, "edge_coverage": cov, "crash_artifacts": crashes.len()}));
    if let Some(c) = crashes.first() {
        let dir = Path::new(VERIF_DIR).join("replays");
        let _ = std::fs::create_dir_all(&dir);
        let dst = dir.join(format!("{}-{leg}-{}.bin", ctx.id, c.file_name().unwrap().to_string_lossy()));
        let _ = std::fs::copy(c, &dst);
        println!("VIOLATION property={} replay={}", ctx.id, dst.display());
        println!("  leg={leg} clause=libfuzzer-crash ({} artifact(s); run `./check {} --replay {}`)", crashes.len(), ctx.id, dst.display());
        ctx.mark_external_violation(leg);
    }
    let _ = std::fs::remove_dir_all(&work);
}

/// replay a crash artifact through the fuzz binary
pub fn replay_artifact(property: &str, target: &str, path: &str) -> i32 {
    if let Err(e) = build() {
        eprintln!("{e}");
        return 2;
    }
    let st = Command::new(binary(target)).arg(path).env("ASAN_OPTIONS", "detect_leaks=0:allocator_may_return_null=1").arg("-malloc_limit_mb=1024").status();
    match st {
        Ok(s) if s.success() => {
            println!("replay: input handled without a report");
            0
        }
        Ok(_) => {
            println!("VIOLATION property={property} replay={path}");
            1
        }
        Err(e) => {
            eprintln!("{e}");
            2
        }
    }
}
