//! C06 worker: runs decoder targets under a counting allocator, one request at a time.
//! request  = [u8 target][u32 len LE][bytes]
//! response = [u8 status][u64 max_single][u64 peak_delta][u64 out_len][u16 msg_len][msg]
use std::alloc::{GlobalAlloc, Layout, System};
use std::io::{Read, Write};
use std::sync::atomic::{AtomicUsize, Ordering::Relaxed};

struct Counting;
static MAX_ONE: AtomicUsize = AtomicUsize::new(0);
static LIVE: AtomicUsize = AtomicUsize::new(0);
static PEAK: AtomicUsize = AtomicUsize::new(0);
/// a single request above this terminates the process with code 86
const HARD_CAP: usize = 1 << 30;

fn note(n: usize) {
    if n > HARD_CAP {
        let msg = b"c06worker: single allocation request above the hard cap\n";
        unsafe {
            libc::write(2, msg.as_ptr() as *const libc::c_void, msg.len());
            libc::_exit(86);
        }
    }
    MAX_ONE.fetch_max(n, Relaxed);
    let l = LIVE.fetch_add(n, Relaxed) + n;
    PEAK.fetch_max(l, Relaxed);
}
unsafe impl GlobalAlloc for Counting {
    unsafe fn alloc(&self, l: Layout) -> *mut u8 {
        note(l.size());
        System.alloc(l)
    }
    unsafe fn alloc_zeroed(&self, l: Layout) -> *mut u8 {
        note(l.size());
        System.alloc_zeroed(l)
    }
    unsafe fn realloc(&self, p: *mut u8, l: Layout, n: usize) -> *mut u8 {
        if n > l.size() {
            note(n);
            LIVE.fetch_sub(l.size(), Relaxed);
        } else {
            LIVE.fetch_sub(l.size() - n, Relaxed);
        }
        System.realloc(p, l, n)
    }
    unsafe fn dealloc(&self, p: *mut u8, l: Layout) {
        LIVE.fetch_sub(l.size(), Relaxed);
        System.dealloc(p, l)
    }
}
#[global_allocator]
static A: Counting = Counting;

fn main() {
    vh::core::panics::install();
    // keep the address space bounded so that a runaway allocation fails fast instead of
    // taking the machine down
    unsafe {
        let lim = libc::rlimit { rlim_cur: 6 << 30, rlim_max: 6 << 30 };
        libc::setrlimit(libc::RLIMIT_AS, &lim);
    }
    let stdin = std::io::stdin();
    let stdout = std::io::stdout();
    let mut inp = stdin.lock();
    let mut out = stdout.lock();
    loop {
        let mut head = [0u8; 5];
        if inp.read_exact(&mut head).is_err() {
            return;
        }
        let target = head[0];
        let len = u32::from_le_bytes(head[1..5].try_into().unwrap()) as usize;
        let mut buf = vec![0u8; len];
        if inp.read_exact(&mut buf).is_err() {
            return;
        }
        let base = LIVE.load(Relaxed);
        MAX_ONE.store(0, Relaxed);
        PEAK.store(base, Relaxed);
        let r = vh::core::catch(|| vh::pure::c06::run_target(target, &buf));
        let max_one = MAX_ONE.load(Relaxed) as u64;
        let peak = (PEAK.load(Relaxed).saturating_sub(base)) as u64;
        let (status, out_len, msg) = match r {
            Ok(Ok(n)) => (0u8, n, String::new()),
            Ok(Err(e)) => (1u8, 0, e),
            Err(p) => (2u8, 0, p),
        };
        let msg: Vec<u8> = msg.bytes().take(400).collect();
        let mut resp = Vec::with_capacity(27 + msg.len());
        resp.push(status);
        resp.extend_from_slice(&max_one.to_le_bytes());
        resp.extend_from_slice(&peak.to_le_bytes());
        resp.extend_from_slice(&out_len.to_le_bytes());
        resp.extend_from_slice(&(msg.len() as u16).to_le_bytes());
        resp.extend_from_slice(&msg);
        if out.write_all(&resp).and_then(|_| out.flush()).is_err() {
            return;
        }
    }
}
