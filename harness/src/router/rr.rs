//! Request/reply router (`selium_server::topic::reqrep::Topic`) under the harness
//! scheduler: op alphabet, interpreter, reference oracle, generators.
use super::mock::*;
use crate::core::{pick_idx, Outcome};
use bytes::Bytes;
use proptest::prelude::*;
use selium_protocol::{error_codes::REPLIER_ALREADY_BOUND, ErrorPayload, Frame, MessagePayload};
use selium_server::topic::reqrep;
use serde::{Deserialize, Serialize};
use std::collections::{HashMap, HashSet};

pub const CAPS: [usize; 3] = [1, 2, 1000];
pub const BAD_TAGS: [&str; 6] = ["", "abc", "1x", "-1", "1.5", " 1"];

#[derive(Debug, Clone, Serialize, Deserialize, Hash, PartialEq, Eq)]
pub enum RrOp {
    RegReq { cap: u8 },
    RegRep { cap: u8 },
    /// a burst of requestor registrations queued between two router steps
    RegBurst { n: u8 },
    Request { r: u16, hdr: u8 },
    Reply { k: u16, which: u16, mutation: u8 },
    /// non-Message frame on a requestor stream (C11: unexpected frame kinds mid-stream)
    JunkReq { r: u16, kind: u8 },
    /// non-Message frame on a replier stream
    JunkRep { k: u16, kind: u8 },
    /// request whose encoding fits the wire limit only before the routing tag is added
    BigRequest { r: u16, slack: u8 },
    PushErrReq { r: u16 },
    PushErrRep { k: u16 },
    EndReq { r: u16 },
    EndRep { k: u16 },
    Block { i: u16 },
    Unblock { i: u16 },
    /// fail a sink at poll_ready/start_send/poll_flush; `conn` = the whole connection
    /// died, so the peer's stream also yields an error and ends
    FailSink { i: u16, at: u8, conn: bool },
    Run,
    Poll,
    Settle,
    Close,
}

#[derive(Debug, Clone, Serialize, Deserialize, Hash, PartialEq, Eq)]
pub struct RrCase {
    pub ops: Vec<RrOp>,
    pub wake_only: bool,
    pub payload_seed: u16,
}

fn lcg(x: &mut u64) -> u64 {
    *x = x.wrapping_mul(6364136223846793005).wrapping_add(1442695040888963407);
    *x >> 33
}

fn body_of(f: &Frame) -> Option<&[u8]> {
    match f {
        Frame::Message(p) => Some(&p.message),
        _ => None,
    }
}
fn hdr<'a>(f: &'a Frame, k: &str) -> Option<&'a String> {
    match f {
        Frame::Message(p) => p.headers.as_ref().and_then(|h| h.get(k)),
        _ => None,
    }
}
fn headers_minus_cid(f: &Frame) -> HashMap<String, String> {
    match f {
        Frame::Message(p) => {
            let mut h = p.headers.clone().unwrap_or_default();
            h.remove("cid");
            h
        }
        _ => HashMap::new(),
    }
}
/// "q{r}:{n}:" (request) or "re:q{r}:{n}:" (reply)
fn ident(b: &[u8]) -> Option<(bool, usize, usize)> {
    let s = std::str::from_utf8(&b[..b.len().min(28)]).unwrap_or_else(|e| std::str::from_utf8(&b[..e.valid_up_to()]).unwrap());
    let (is_reply, s) = match s.strip_prefix("re:") {
        Some(r) => (true, r),
        None => (false, s),
    };
    let s = s.strip_prefix('q')?;
    let (r, rest) = s.split_once(':')?;
    let (n, _) = rest.split_once(':')?;
    Some((is_reply, r.parse().ok()?, n.parse().ok()?))
}

fn junk_frame(kind: u8) -> Frame {
    match kind % 4 {
        0 => Frame::Ok,
        1 => Frame::BatchMessage(Bytes::from_static(b"batch-on-reqrep")),
        2 => Frame::Error(ErrorPayload { code: 77, message: Bytes::from_static(b"peer error frame") }),
        _ => Frame::RegisterRequestor(selium_protocol::RequestorPayload { topic: selium_protocol::TopicName::_create_unchecked("late", "registration") }),
    }
}

struct Req {
    si: MockSink,
    st: MockStream,
    pushed: Vec<Frame>,
    /// op index at which each request was pushed
    pushed_at: Vec<usize>,
    /// requests that cannot fit once tagged (excluded from completeness)
    oversize: HashSet<usize>,
    ended_at: Option<usize>,
    failed_at: Option<usize>,
}
struct Rep {
    si: MockSink,
    st: MockStream,
    reg_at: usize,
    gone_at: Option<usize>,
    sink_failed_at: Option<usize>,
    /// op index after which the router had been handed an Err by this replier's sink at
    /// poll_ready / poll_flush (a broken connection): from then on it must be unbound
    unbind_observed_at: Option<usize>,
    answered: HashSet<(usize, usize)>,
    emitted: Vec<Emitted>,
    junk_pushed: usize,
}
#[derive(Clone, Debug)]
struct Emitted {
    frame: Frame,
    target: Option<String>,
    valid_tag: bool,
}

#[derive(Default, Debug, Clone)]
pub struct RrFacts {
    pub requestors: usize,
    pub repliers: usize,
    pub requestors_with_exchange: usize,
    pub sink_pendings: usize,
    pub pending_while_reply_in_flight: bool,
    pub forged: usize,
    pub bad_tags: usize,
    pub cross_tags: usize,
    pub rejected: usize,
    pub rejected_back_to_back: bool,
    pub rejected_sink_pending: bool,
    pub rebinds: usize,
    pub must_bind: usize,
    pub must_reject: usize,
    pub ambiguous: usize,
    pub closed: bool,
    pub close_with_peers: bool,
    pub close_with_blocked_or_buffered: bool,
    pub close_after_socket: bool,
    pub one_sided: bool,
    pub router_pendings: usize,
    pub faults_observed: usize,
    pub fault_at: [usize; 4],
    pub fault_role_req: usize,
    pub fault_role_rep: usize,
    pub junk: usize,
    pub big_requests: usize,
    pub big_over: usize,
    pub max_inner: u64,
    pub requests_delivered: usize,
    pub replies_delivered: usize,
    pub probe_ok: bool,
}

fn exec_err(e: ExecErr) -> Outcome {
    match e {
        ExecErr::Panic { msg, spin: true } => Outcome::fail("spin", format!("router exceeded the inner-poll bound inside one poll: {msg}")),
        ExecErr::Panic { msg, .. } => Outcome::fail(format!("panic:{msg}"), "router panicked"),
        ExecErr::Livelock => Outcome::fail("livelock", "router kept waking itself (20000 polls) without external input"),
    }
}

#[derive(Clone, Copy, Debug, Default)]
pub struct RrOpts {
    /// after the history, register a fresh requestor (and a fresh replier if none is
    /// surely bound) and require a complete exchange: "the topic keeps serving"
    pub probe: bool,
}

pub fn run_case(case: &RrCase, opts: RrOpts) -> (Outcome, RrFacts) {
    let mut facts = RrFacts::default();
    match run_inner(case, opts, &mut facts) {
        Ok(()) => (Outcome::pass(vec![], false), facts),
        Err(o) => (o, facts),
    }
}

fn make_request(seed: u16, r: usize, n: usize, hdr: u8, nreq: usize) -> (Frame, bool) {
    let mut x = (seed as u64) << 32 | (r as u64) << 20 | (n as u64) << 4 | 3;
    let mut body = format!("q{r}:{n}:").into_bytes();
    for _ in 0..(lcg(&mut x) % 20) {
        body.push(lcg(&mut x) as u8);
    }
    let mut forged = false;
    let headers = match hdr % 6 {
        4 => None,
        v => {
            let mut h = HashMap::new();
            h.insert("req_id".to_string(), n.to_string());
            match v {
                1 => {
                    // try to pass as another requestor
                    h.insert("cid".into(), format!("{}", (r + 1 + (lcg(&mut x) as usize % 3)) % nreq.max(2)));
                    forged = true;
                }
                2 => {
                    h.insert("cid".into(), "zz-not-a-tag".into());
                    forged = true;
                }
                3 => {
                    h.insert(format!("x-{}", lcg(&mut x) % 5), format!("välue{}", lcg(&mut x) % 100));
                }
                _ => {}
            }
            Some(h)
        }
    };
    (Frame::Message(MessagePayload { headers, message: Bytes::from(body) }), forged)
}

fn run_inner(case: &RrCase, opts: RrOpts, facts: &mut RrFacts) -> Result<(), Outcome> {
    let (topic, mut tx) = reqrep::Topic::<String>::pair();
    let mut ex = Exec::new(topic);
    let mut reqs: Vec<Req> = vec![];
    let mut reps: Vec<Rep> = vec![];
    // all sinks in creation order: (is_replier, index)
    let mut sinks: Vec<(bool, usize)> = vec![];
    let mut queued = 0usize;
    let mut closed = false;
    let mut closed_at: Option<usize> = None;
    let mut clean_settles: Vec<usize> = vec![];
    let mut work = 0usize;
    let mut last_was_reg = false;
    let mut last_rejected_reg: Option<usize> = None;

    let limit = |work: usize, peers: usize| -> u64 { (16 * (work as u64 + 2) * (peers as u64 + 4)).max(50_000) };
    macro_rules! step {
        ($e:expr) => {{
            ex.inner_limit = limit(work, reqs.len() + reps.len());
            if let Err(e) = $e {
                facts.max_inner = take_max_inner();
                return Err(exec_err(e));
            }
        }};
    }
    fn all_clean(reqs: &[Req], reps: &[Rep]) -> bool {
        reqs.iter().all(|q| !q.si.blocked()) && reps.iter().all(|p| !p.si.blocked())
    }
    // requests received by replier k (wire only = what the peer has seen), not yet answered
    fn unanswered(p: &Rep) -> Vec<(usize, usize, Frame)> {
        p.si.wire()
            .into_iter()
            .filter_map(|f| {
                let id = body_of(&f).and_then(ident)?;
                if id.0 || p.answered.contains(&(id.1, id.2)) {
                    None
                } else {
                    Some((id.1, id.2, f))
                }
            })
            .collect()
    }
    fn learned_tokens(reps: &[Rep]) -> HashMap<usize, String> {
        let mut t = HashMap::new();
        for p in reps {
            for f in p.si.wire() {
                if let (Some((false, r, _)), Some(c)) = (body_of(&f).and_then(ident), hdr(&f, "cid")) {
                    t.entry(r).or_insert_with(|| c.clone());
                }
            }
        }
        t
    }

    for (idx, op) in case.ops.iter().enumerate() {
        let mut this_is_reg = false;
        match op {
            RrOp::RegReq { cap } => {
                if !closed && reqs.len() < 3 {
                    let (si, st) = (MockSink::new(CAPS[*cap as usize % CAPS.len()]), MockStream::default());
                    if tx.try_send(reqrep::Socket::Client((Box::pin(si.clone()), Box::pin(st.clone())))).is_ok() {
                        sinks.push((false, reqs.len()));
                        reqs.push(Req { si, st, pushed: vec![], pushed_at: vec![], oversize: HashSet::new(), ended_at: None, failed_at: None });
                        queued += 1;
                        this_is_reg = true;
                    }
                }
            }
            RrOp::RegRep { cap } => {
                if !closed && reps.len() < 5 {
                    // cap 3: a sink that is not ready even for its first frame while blocked
                    let capv = if *cap % 4 == 3 { 0 } else { CAPS[*cap as usize % CAPS.len()] };
                    let (si, st) = (MockSink::new_exact(capv), MockStream::default());
                    if tx.try_send(reqrep::Socket::Server((Box::pin(si.clone()), Box::pin(st.clone())))).is_ok() {
                        sinks.push((true, reps.len()));
                        if reps.iter().any(|p| p.gone_at.is_none()) {
                            if last_rejected_reg == Some(idx.wrapping_sub(1)) {
                                facts.rejected_back_to_back = true;
                            }
                            last_rejected_reg = Some(idx);
                        }
                        reps.push(Rep { si, st, reg_at: idx, gone_at: None, sink_failed_at: None, unbind_observed_at: None, answered: HashSet::new(), emitted: vec![], junk_pushed: 0 });
                        queued += 1;
                        this_is_reg = true;
                    }
                }
            }
            RrOp::RegBurst { n } => {
                if !closed {
                    let n = 12 + (*n as usize % 30);
                    for i in 0..n {
                        if reqs.len() >= 60 {
                            break;
                        }
                        let (si, st) = (MockSink::new(CAPS[(i + n) % CAPS.len()]), MockStream::default());
                        if tx.try_send(reqrep::Socket::Client((Box::pin(si.clone()), Box::pin(st.clone())))).is_ok() {
                            sinks.push((false, reqs.len()));
                            reqs.push(Req { si, st, pushed: vec![], pushed_at: vec![], oversize: HashSet::new(), ended_at: None, failed_at: None });
                            queued += 1;
                            this_is_reg = true;
                        }
                    }
                }
            }
            RrOp::Request { r, hdr } => {
                if !reqs.is_empty() {
                    let qi = pick_idx(*r, reqs.len());
                    if reqs[qi].ended_at.is_none() {
                        let n = reqs[qi].pushed.len();
                        let (f, forged) = make_request(case.payload_seed, qi, n, *hdr, reqs.len());
                        if forged {
                            facts.forged += 1;
                        }
                        reqs[qi].pushed.push(f.clone());
                        reqs[qi].pushed_at.push(idx);
                        reqs[qi].st.push(f);
                        work += 1;
                    }
                }
            }
            RrOp::BigRequest { r, slack } => {
                if !reqs.is_empty() {
                    let qi = pick_idx(*r, reqs.len());
                    if reqs[qi].ended_at.is_none() {
                        let n = reqs[qi].pushed.len();
                        // headers {"req_id": n}; choose the payload so that the frame is
                        // `slack` bytes under the limit before tagging
                        let mut h = HashMap::new();
                        h.insert("req_id".to_string(), n.to_string());
                        let probe = Frame::Message(MessagePayload { headers: Some(h.clone()), message: Bytes::new() });
                        let base = probe.get_length().unwrap_or(64) as usize;
                        let limit = 1024 * 1024usize;
                        let slack = (*slack as usize) % 48;
                        let prefix = format!("q{qi}:{n}:").into_bytes();
                        let mut body = prefix.clone();
                        body.resize(limit - base - slack, b'B');
                        let f = Frame::Message(MessagePayload { headers: Some(h), message: Bytes::from(body) });
                        // tagged size: + 8 (key len) + 3 ("cid") + 8 (val len) + digits
                        let tagged = limit - slack + 8 + 3 + 8 + 1;
                        if tagged > limit {
                            reqs[qi].oversize.insert(n);
                            facts.big_over += 1;
                        }
                        facts.big_requests += 1;
                        reqs[qi].pushed.push(f.clone());
                        reqs[qi].pushed_at.push(idx);
                        reqs[qi].st.push(f);
                        work += 1;
                    }
                }
            }
            RrOp::Reply { k, which, mutation } => {
                if !reps.is_empty() {
                    let ki = pick_idx(*k, reps.len());
                    if reps[ki].gone_at.is_none() {
                        let un = unanswered(&reps[ki]);
                        if !un.is_empty() {
                            let (r, n, reqf) = un[pick_idx(*which, un.len())].clone();
                            reps[ki].answered.insert((r, n));
                            let mut headers = match &reqf {
                                Frame::Message(p) => p.headers.clone().unwrap_or_default(),
                                _ => HashMap::new(),
                            };
                            let own = headers.get("cid").cloned();
                            let mut hopt = true;
                            let (target, valid): (Option<String>, bool) = match mutation % 12 {
                                6 => {
                                    headers.remove("cid");
                                    facts.bad_tags += 1;
                                    (None, false)
                                }
                                7 => {
                                    hopt = false;
                                    facts.bad_tags += 1;
                                    (None, false)
                                }
                                8 => {
                                    let t = format!("{}", 1_000_000 + *which as u64);
                                    headers.insert("cid".into(), t);
                                    facts.bad_tags += 1;
                                    (None, false)
                                }
                                9 => {
                                    let t = BAD_TAGS[*which as usize % BAD_TAGS.len()].to_string();
                                    headers.insert("cid".into(), t);
                                    facts.bad_tags += 1;
                                    (None, false)
                                }
                                10 => {
                                    let toks = learned_tokens(&reps);
                                    let mut others: Vec<(&usize, &String)> = toks.iter().filter(|(q, _)| **q != r).collect();
                                    others.sort();
                                    if let Some((_, t)) = others.first() {
                                        headers.insert("cid".into(), (*t).clone());
                                        facts.cross_tags += 1;
                                        (Some((*t).clone()), true)
                                    } else {
                                        (own.clone(), own.is_some())
                                    }
                                }
                                11 => {
                                    headers.insert("x-reply".into(), "ünï".into());
                                    (own.clone(), own.is_some())
                                }
                                _ => (own.clone(), own.is_some()),
                            };
                            let mut b = b"re:".to_vec();
                            b.extend_from_slice(body_of(&reqf).unwrap());
                            b.truncate(200);
                            let frame = Frame::Message(MessagePayload { headers: if hopt { Some(headers) } else { None }, message: Bytes::from(b) });
                            reps[ki].emitted.push(Emitted { frame: frame.clone(), target, valid_tag: valid });
                            reps[ki].st.push(frame);
                            work += 1;
                            if reqs.iter().any(|q| q.si.blocked()) {
                                facts.pending_while_reply_in_flight = true;
                            }
                        }
                    }
                }
            }
            RrOp::JunkReq { r, kind } => {
                if !reqs.is_empty() {
                    let qi = pick_idx(*r, reqs.len());
                    if reqs[qi].ended_at.is_none() {
                        reqs[qi].st.push(junk_frame(*kind));
                        facts.junk += 1;
                        work += 1;
                    }
                }
            }
            RrOp::JunkRep { k, kind } => {
                if !reps.is_empty() {
                    let ki = pick_idx(*k, reps.len());
                    if reps[ki].gone_at.is_none() {
                        reps[ki].st.push(junk_frame(*kind));
                        reps[ki].junk_pushed += 1;
                        facts.junk += 1;
                        work += 1;
                    }
                }
            }
            RrOp::PushErrReq { r } => {
                if !reqs.is_empty() {
                    let qi = pick_idx(*r, reqs.len());
                    if reqs[qi].ended_at.is_none() {
                        reqs[qi].st.push_err();
                        work += 1;
                    }
                }
            }
            RrOp::PushErrRep { k } => {
                if !reps.is_empty() {
                    let ki = pick_idx(*k, reps.len());
                    if reps[ki].gone_at.is_none() {
                        reps[ki].st.push_err();
                        work += 1;
                    }
                }
            }
            RrOp::EndReq { r } => {
                if !reqs.is_empty() {
                    let qi = pick_idx(*r, reqs.len());
                    if reqs[qi].ended_at.is_none() {
                        reqs[qi].st.end();
                        reqs[qi].ended_at = Some(idx);
                    }
                }
            }
            RrOp::EndRep { k } => {
                if !reps.is_empty() {
                    let ki = pick_idx(*k, reps.len());
                    if reps[ki].gone_at.is_none() {
                        reps[ki].st.end();
                        reps[ki].gone_at = Some(idx);
                    }
                }
            }
            RrOp::Block { i } => {
                if !sinks.is_empty() {
                    let (is_rep, j) = sinks[pick_idx(*i, sinks.len())];
                    if is_rep { reps[j].si.block(true) } else { reqs[j].si.block(true) }
                }
            }
            RrOp::Unblock { i } => {
                if !sinks.is_empty() {
                    let (is_rep, j) = sinks[pick_idx(*i, sinks.len())];
                    if is_rep { reps[j].si.block(false) } else { reqs[j].si.block(false) }
                }
            }
            RrOp::FailSink { i, at, conn } => {
                if !sinks.is_empty() {
                    let (is_rep, j) = sinks[pick_idx(*i, sinks.len())];
                    let at = 1 + (*at % 3);
                    if is_rep {
                        if !reps[j].si.failed() {
                            reps[j].si.set_fail(at);
                            reps[j].sink_failed_at = Some(idx);
                            facts.fault_at[at as usize] += 1;
                            facts.fault_role_rep += 1;
                            if *conn && reps[j].gone_at.is_none() {
                                reps[j].st.push_err();
                                reps[j].st.end();
                                reps[j].gone_at = Some(idx);
                            }
                        }
                    } else if !reqs[j].si.failed() {
                        reqs[j].si.set_fail(at);
                        reqs[j].failed_at = Some(idx);
                        facts.fault_at[at as usize] += 1;
                        facts.fault_role_req += 1;
                        if *conn && reqs[j].ended_at.is_none() {
                            reqs[j].st.push_err();
                            reqs[j].st.end();
                            reqs[j].ended_at = Some(idx);
                        }
                    }
                }
            }
            RrOp::Run => {
                step!(ex.run());
                if case.wake_only && all_clean(&reqs, &reps) && !closed {
                    clean_settles.push(idx);
                }
            }
            RrOp::Poll => {
                if !case.wake_only {
                    step!(ex.poll_once());
                }
            }
            RrOp::Settle => {
                if !case.wake_only {
                    for _ in 0..queued + 3 {
                        step!(ex.poll_once());
                    }
                    step!(ex.run());
                    if all_clean(&reqs, &reps) && !closed {
                        queued = 0;
                        clean_settles.push(idx);
                    }
                }
            }
            RrOp::Close => {
                if !closed {
                    tx.close_channel();
                    closed = true;
                    closed_at = Some(idx);
                    facts.closed = true;
                    facts.close_with_peers = !reqs.is_empty() || !reps.is_empty();
                    facts.close_with_blocked_or_buffered = reqs.iter().any(|q| q.si.blocked() || !q.si.buf().is_empty()) || reps.iter().any(|p| p.si.blocked() || !p.si.buf().is_empty());
                    facts.close_after_socket = last_was_reg;
                }
            }
        }
        if !matches!(op, RrOp::Run | RrOp::Poll | RrOp::Settle) {
            last_was_reg = this_is_reg;
        } else {
            for p in reps.iter_mut() {
                if p.unbind_observed_at.is_none() {
                    let st = p.si.0.lock().unwrap();
                    if st.observed_fail && (st.fail == FAIL_READY || st.fail == FAIL_FLUSH) {
                        p.unbind_observed_at = Some(idx);
                    }
                }
            }
        }
    }
    let _ = closed_at;

    // ---- closing phase: every sink accepts data, wake-driven run to quiescence ----
    for q in &reqs {
        q.si.block(false);
    }
    for p in &reps {
        p.si.block(false);
    }
    let n_ops = case.ops.len();
    if case.wake_only {
        step!(ex.run());
    } else {
        for _ in 0..queued + 3 {
            step!(ex.poll_once());
        }
        step!(ex.run());
    }
    if !closed {
        clean_settles.push(n_ops);
    }

    // ---- binding model ----
    #[derive(Clone, Copy, PartialEq, Debug)]
    enum St {
        MustBind,
        MustReject,
        Ambiguous,
    }
    let first_settle_after = |t: usize| clean_settles.iter().copied().find(|s| *s > t);
    let mut status: Vec<St> = vec![];
    for (k, p) in reps.iter().enumerate() {
        let processed_by = first_settle_after(p.reg_at);
        let must_bind = !closed
            && (0..k).all(|j| {
                status[j] == St::MustReject
                    || reps[j].gone_at.map_or(false, |g| first_settle_after(g).map_or(false, |s| s < p.reg_at))
                    || reps[j].unbind_observed_at.map_or(false, |g| first_settle_after(g).map_or(false, |s| s < p.reg_at))
            });
        let must_reject = !closed
            && (0..k).any(|j| {
                status[j] == St::MustBind
                    && reps[j].sink_failed_at.is_none()
                    && match (reps[j].gone_at, processed_by) {
                        (None, Some(_)) => true,
                        (Some(g), Some(pb)) => g > pb,
                        _ => false,
                    }
            });
        status.push(if must_bind {
            St::MustBind
        } else if must_reject {
            St::MustReject
        } else {
            St::Ambiguous
        });
    }
    facts.must_bind = status.iter().filter(|s| **s == St::MustBind).count();
    facts.must_reject = status.iter().filter(|s| **s == St::MustReject).count();
    facts.ambiguous = status.iter().filter(|s| **s == St::Ambiguous).count();
    facts.rebinds = status.iter().enumerate().filter(|(k, s)| **s == St::MustBind && *k > 0 && (0..*k).any(|j| status[j] != St::MustReject)).count();

    facts.requestors = reqs.len();
    facts.repliers = reps.len();
    facts.router_pendings = ex.pendings;
    facts.sink_pendings = reqs.iter().map(|q| q.si.pendings()).sum::<usize>() + reps.iter().map(|p| p.si.pendings()).sum::<usize>();
    facts.one_sided = reqs.is_empty() != reps.is_empty() || (reqs.is_empty() && reps.is_empty());
    facts.faults_observed = reqs.iter().filter(|q| q.si.observed_fail()).count() + reps.iter().filter(|p| p.si.observed_fail()).count();

    // ---- (1) what the repliers received ----
    let mut token: HashMap<usize, String> = HashMap::new();
    let mut seen: HashMap<(usize, usize), usize> = HashMap::new();
    for (k, p) in reps.iter().enumerate() {
        let wire = p.si.wire();
        let buf = p.si.buf();
        let healthy = !p.si.failed();
        if healthy && !closed && !buf.is_empty() {
            return Err(Outcome::fail("replier-unflushed", format!("replier {k}: {} frame(s) handed to its sink but never flushed", buf.len())));
        }
        let mut errors = 0usize;
        let mut requests = 0usize;
        let mut last: HashMap<usize, usize> = HashMap::new();
        for f in wire.iter().chain(buf.iter()) {
            if let Frame::Error(e) = f {
                errors += 1;
                if e.code != REPLIER_ALREADY_BOUND {
                    return Err(Outcome::fail("replier-wrong-error-code", format!("replier {k} was sent error code {}", e.code)));
                }
                continue;
            }
            let Some((false, r, n)) = body_of(f).and_then(ident) else {
                return Err(Outcome::fail("replier-foreign-frame", format!("replier {k} received a frame no requestor sent: {f:?}")));
            };
            if r >= reqs.len() || n >= reqs[r].pushed.len() {
                return Err(Outcome::fail("replier-foreign-frame", format!("replier {k} received unknown request q{r}:{n}")));
            }
            requests += 1;
            let orig = &reqs[r].pushed[n];
            if body_of(orig) != body_of(f) || headers_minus_cid(orig) != headers_minus_cid(f) {
                return Err(Outcome::fail("request-altered", format!("request q{r}:{n} reached replier {k} altered: got {:?} sent {:?}", short(f), short(orig))));
            }
            if let Some(prev) = seen.insert((r, n), k) {
                return Err(Outcome::fail("request-duplicated", format!("request q{r}:{n} was handed to a replier twice (repliers {prev} and {k})")));
            }
            if let Some(l) = last.get(&r) {
                if n <= *l {
                    return Err(Outcome::fail("request-reordered", format!("replier {k}: request q{r}:{n} arrived after q{r}:{l}")));
                }
            }
            last.insert(r, n);
            let Some(c) = hdr(f, "cid") else {
                return Err(Outcome::fail("request-untagged", format!("request q{r}:{n} reached replier {k} without a routing tag")));
            };
            match token.get(&r) {
                Some(t) if t != c => return Err(Outcome::fail("origin-tag-not-stable", format!("requests of requestor {r} carry different origin tags {t:?} and {c:?} (a requestor-supplied tag got through?)"))),
                None => {
                    token.insert(r, c.clone());
                }
                _ => {}
            }
        }
        facts.requests_delivered += requests;
        // ---- C10 shape of what each replier saw ----
        if errors > 0 {
            facts.rejected += 1;
            if p.si.pendings() > 0 {
                facts.rejected_sink_pending = true;
            }
        }
        if healthy && !closed {
            let rejected_shape = errors == 1 && requests == 0 && wire.len() == 1 && p.si.closed();
            let bound_shape = errors == 0;
            match status[k] {
                St::MustReject if !rejected_shape => {
                    return Err(Outcome::fail(
                        "second-replier-not-rejected",
                        format!("replier {k} registered while replier(s) before it were bound: expected exactly [Error(REPLIER_ALREADY_BOUND)] then close; got errors={errors} requests={requests} wire_len={} closed={}", wire.len(), p.si.closed()),
                    ))
                }
                St::MustBind if !bound_shape => {
                    return Err(Outcome::fail("free-topic-replier-rejected", format!("replier {k} registered when no replier could be bound, yet it was sent an error")));
                }
                _ => {
                    if !(rejected_shape || bound_shape) {
                        return Err(Outcome::fail(
                            "replier-half-rejected",
                            format!("replier {k}: neither served nor properly rejected: errors={errors} requests={requests} wire_len={} closed={}", wire.len(), p.si.closed()),
                        ));
                    }
                }
            }
        }
    }
    {
        let mut toks: Vec<(&usize, &String)> = token.iter().collect();
        toks.sort();
        for i in 0..toks.len() {
            for j in 0..i {
                if toks[i].1 == toks[j].1 {
                    return Err(Outcome::fail("origin-tag-shared", format!("requestors {} and {} carry the same origin tag {:?}", toks[j].0, toks[i].0, toks[i].1)));
                }
            }
        }
    }

    // ---- (2) exactly-once for a replier that is bound and stays bound ----
    if !closed {
        for (k, p) in reps.iter().enumerate() {
            if status[k] != St::MustBind || p.gone_at.is_some() || p.si.failed() {
                continue;
            }
            let Some(pb) = first_settle_after(p.reg_at) else { continue };
            let got: HashSet<(usize, usize)> = p.si.wire().iter().filter_map(|f| body_of(f).and_then(ident)).filter(|i| !i.0).map(|i| (i.1, i.2)).collect();
            for (r, q) in reqs.iter().enumerate() {
                for (n, at) in q.pushed_at.iter().enumerate() {
                    if *at > pb && !q.oversize.contains(&n) && !got.contains(&(r, n)) {
                        return Err(Outcome::fail(
                            "request-lost-while-bound",
                            format!("request q{r}:{n} was sent (op {at}) while replier {k} was bound (since op {pb}) and stayed bound, but never reached it"),
                        ));
                    }
                }
            }
        }
    }

    // ---- (3) replies ----
    let tok_owner: HashMap<&String, usize> = token.iter().map(|(q, t)| (t, *q)).collect();
    // what each requestor got
    let mut req_wire_bodies: Vec<Vec<Frame>> = vec![];
    for (qi, q) in reqs.iter().enumerate() {
        let wire = q.si.wire();
        if !q.si.failed() && !closed && !q.si.buf().is_empty() {
            return Err(Outcome::fail("requestor-unflushed", format!("requestor {qi}: {} reply frame(s) handed to its sink but never flushed", q.si.buf().len())));
        }
        for f in &wire {
            if hdr(f, "cid").is_some() {
                return Err(Outcome::fail("tag-not-stripped", format!("requestor {qi} received a reply that still carries the routing tag: {:?}", short(f))));
            }
            let Some((true, _, _)) = body_of(f).and_then(ident) else {
                return Err(Outcome::fail("requestor-foreign-frame", format!("requestor {qi} received a frame that is not a reply: {:?}", short(f))));
            };
        }
        req_wire_bodies.push(wire);
    }
    let mut exch: HashSet<usize> = HashSet::new();
    let mut expected_on: Vec<Vec<Frame>> = vec![vec![]; reqs.len()];
    for (k, p) in reps.iter().enumerate() {
        let pulled = p.st.n_yielded().saturating_sub(0);
        // emitted replies and junk share the stream; map pulled frames by equality
        let yielded = p.st.yielded();
        let _ = pulled;
        for e in &p.emitted {
            let was_pulled = yielded.iter().any(|f| *f == e.frame);
            if !was_pulled {
                continue;
            }
            let stripped = strip_cid(&e.frame);
            let counts: Vec<usize> = req_wire_bodies.iter().map(|w| w.iter().filter(|f| same_msg(f, &stripped)).count()).collect();
            let total: usize = counts.iter().sum();
            let owner = if e.valid_tag { e.target.as_ref().and_then(|t| tok_owner.get(t)).copied() } else { None };
            match owner {
                Some(q) => {
                    for (qi, c) in counts.iter().enumerate() {
                        if qi != q && *c > 0 {
                            return Err(Outcome::fail("reply-misrouted", format!("reply {:?} tagged for requestor {q} was delivered to requestor {qi}", short(&e.frame))));
                        }
                    }
                    if counts[q] > 1 {
                        return Err(Outcome::fail("reply-duplicated", format!("reply {:?} delivered {} times to requestor {q}", short(&e.frame), counts[q])));
                    }
                    let connected = reqs[q].failed_at.is_none() && reqs[q].ended_at.is_none();
                    if connected && !closed && counts[q] == 0 {
                        return Err(Outcome::fail(
                            "reply-lost",
                            format!("replier {k} emitted {:?} for still-connected requestor {q} (router pulled it), but it never reached the requestor", short(&e.frame)),
                        ));
                    }
                    if counts[q] == 1 {
                        exch.insert(q);
                        facts.replies_delivered += 1;
                        expected_on[q].push(stripped.clone());
                    }
                }
                None => {
                    if total > 0 {
                        return Err(Outcome::fail("bad-tag-reply-delivered", format!("reply with missing/unknown/malformed tag {:?} was delivered to a requestor", short(&e.frame))));
                    }
                }
            }
        }
    }
    // every frame a requestor got must be one of the replies addressed to it
    for (qi, w) in req_wire_bodies.iter().enumerate() {
        for f in w {
            if !expected_on[qi].iter().any(|e| same_msg(f, e)) {
                return Err(Outcome::fail("reply-foreign-or-altered", format!("requestor {qi} received {:?}, which is not (a tag-stripped copy of) any reply addressed to it", short(f))));
            }
        }
    }
    facts.requestors_with_exchange = exch.len();

    // ---- (4) quiescence (C09) ----
    if !closed {
        let bound_alive = reps.iter().enumerate().find(|(k, p)| status[*k] == St::MustBind && p.gone_at.is_none() && !p.si.failed());
        if let Some((k, p)) = bound_alive {
            if p.st.queued() != 0 {
                return Err(Outcome::fail("asleep-unpulled", format!("bound replier {k}: {} reply/frame(s) still queued at quiescence although every sink accepts data", p.st.queued())));
            }
            for (qi, q) in reqs.iter().enumerate() {
                if q.st.queued() != 0 {
                    return Err(Outcome::fail("asleep-unpulled", format!("requestor {qi}: {} request(s) still queued at quiescence although a replier is bound and every sink accepts data", q.st.queued())));
                }
            }
        }
    }

    // ---- probe: the topic keeps serving (C08 / C11) ----
    if opts.probe && !closed && ex.dead.is_none() {
        let bound_alive = reps.iter().enumerate().any(|(k, p)| status[k] == St::MustBind && p.gone_at.is_none() && !p.si.failed());
        // the closing phase ended with a clean settle, so an observed failure has been acted on
        let all_gone_or_rejected = reps.iter().enumerate().all(|(k, p)| p.gone_at.is_some() || status[k] == St::MustReject || {
            let st = p.si.0.lock().unwrap();
            st.observed_fail && (st.fail == FAIL_READY || st.fail == FAIL_FLUSH)
        });
        let mut probe_rep: Option<(MockSink, MockStream)> = None;
        if !bound_alive && all_gone_or_rejected {
            let (si, st) = (MockSink::new(1000), MockStream::default());
            if tx.try_send(reqrep::Socket::Server((Box::pin(si.clone()), Box::pin(st.clone())))).is_ok() {
                probe_rep = Some((si, st));
            }
        }
        if bound_alive || probe_rep.is_some() {
            let (qsi, qst) = (MockSink::new(1000), MockStream::default());
            if tx.try_send(reqrep::Socket::Client((Box::pin(qsi.clone()), Box::pin(qst.clone())))).is_ok() {
                for _ in 0..4 {
                    step!(ex.poll_once());
                }
                step!(ex.run());
                let mut h = HashMap::new();
                h.insert("req_id".to_string(), "0".to_string());
                qst.push(Frame::Message(MessagePayload { headers: Some(h), message: Bytes::from_static(b"q99:0:probe") }));
                step!(ex.run());
                // find the probe on a replier wire
                let mut found: Option<(Frame, MockStream)> = None;
                if let Some((si, st)) = &probe_rep {
                    if let Some(f) = si.wire().into_iter().find(|f| body_of(f) == Some(b"q99:0:probe")) {
                        found = Some((f, st.clone()));
                    }
                }
                for p in &reps {
                    if let Some(f) = p.si.wire().into_iter().find(|f| body_of(f) == Some(b"q99:0:probe")) {
                        found = Some((f, p.st.clone()));
                    }
                }
                let Some((f, rst)) = found else {
                    return Err(Outcome::fail("probe-request-not-served", "after the history a fresh requestor's request did not reach the (re)bound replier: the topic stopped serving"));
                };
                let Frame::Message(mut mp) = f else { unreachable!() };
                mp.message = Bytes::from_static(b"re:q99:0:probe");
                rst.push(Frame::Message(mp));
                step!(ex.run());
                if !qsi.wire().iter().any(|f| body_of(f) == Some(b"re:q99:0:probe")) {
                    return Err(Outcome::fail("probe-reply-not-served", "after the history a fresh requestor did not get its reply: the topic stopped serving"));
                }
                facts.probe_ok = true;
            }
        }
    }

    // ---- (5) termination (C16) ----
    let polls_before = ex.polls;
    if !closed {
        tx.close_channel();
    }
    step!(ex.run());
    facts.max_inner = take_max_inner();
    if !ex.done {
        return Err(Outcome::fail("no-finish-after-close", "registration channel closed, every sink accepts data, no wake-up pending, yet the router future has not completed"));
    }
    if ex.polls - polls_before > work + reqs.len() + reps.len() + 50 {
        return Err(Outcome::fail("finish-unbounded", format!("{} polls after close", ex.polls - polls_before)));
    }
    Ok(())
}

fn short(f: &Frame) -> String {
    match f {
        Frame::Message(p) => format!("Message{{headers:{:?}, body:{:?}}}", p.headers, String::from_utf8_lossy(&p.message[..p.message.len().min(24)])),
        o => format!("{o:?}").chars().take(120).collect(),
    }
}
fn strip_cid(f: &Frame) -> Frame {
    match f {
        Frame::Message(p) => {
            let mut h = p.headers.clone().unwrap_or_default();
            h.remove("cid");
            Frame::Message(MessagePayload { headers: Some(h), message: p.message.clone() })
        }
        o => o.clone(),
    }
}
/// equality up to `None` == empty header map
fn same_msg(a: &Frame, b: &Frame) -> bool {
    match (a, b) {
        (Frame::Message(x), Frame::Message(y)) => x.message == y.message && x.headers.clone().unwrap_or_default() == y.headers.clone().unwrap_or_default(),
        _ => a == b,
    }
}

#[derive(Clone, Copy, Debug)]
pub struct RrGen {
    pub faults: bool,
    pub close: bool,
    pub wake_only: bool,
    pub junk: bool,
    pub big: bool,
    pub many_repliers: bool,
    /// include bursts of requestor registrations
    pub bursts: bool,
    pub max_len: usize,
    /// in two thirds of the cases start with [RegRep, RegReq x2..3, Settle] so that
    /// most of the random tail exercises a populated, bound topic
    pub prelude: bool,
}

pub fn op_strategy(g: RrGen) -> BoxedStrategy<RrOp> {
    let sel = || any::<u16>();
    let mut v: Vec<(u32, BoxedStrategy<RrOp>)> = vec![
        (8, (0u8..3).prop_map(|cap| RrOp::RegReq { cap }).boxed()),
        (if g.many_repliers { 12 } else if g.prelude { 2 } else { 6 }, (0u8..4).prop_map(|cap| RrOp::RegRep { cap }).boxed()),
        (22, (sel(), 0u8..6).prop_map(|(r, hdr)| RrOp::Request { r, hdr }).boxed()),
        (20, (sel(), sel(), 0u8..12).prop_map(|(k, which, mutation)| RrOp::Reply { k, which, mutation }).boxed()),
        (2, sel().prop_map(|r| RrOp::PushErrReq { r }).boxed()),
        (1, sel().prop_map(|k| RrOp::PushErrRep { k }).boxed()),
        (if g.prelude { 1 } else { 3 }, sel().prop_map(|r| RrOp::EndReq { r }).boxed()),
        (if g.many_repliers { 6 } else if g.prelude { 1 } else { 2 }, sel().prop_map(|k| RrOp::EndRep { k }).boxed()),
        (9, sel().prop_map(|i| RrOp::Block { i }).boxed()),
        (9, sel().prop_map(|i| RrOp::Unblock { i }).boxed()),
        (12, Just(RrOp::Run).boxed()),
    ];
    if !g.wake_only {
        v.push((4, Just(RrOp::Poll).boxed()));
        v.push((8, Just(RrOp::Settle).boxed()));
    }
    if g.faults {
        v.push((6, (sel(), 0u8..3, any::<bool>()).prop_map(|(i, at, conn)| RrOp::FailSink { i, at, conn }).boxed()));
    }
    if g.close {
        v.push((3, Just(RrOp::Close).boxed()));
    }
    if g.junk {
        v.push((5, (sel(), 0u8..4).prop_map(|(r, kind)| RrOp::JunkReq { r, kind }).boxed()));
        v.push((4, (sel(), 0u8..4).prop_map(|(k, kind)| RrOp::JunkRep { k, kind }).boxed()));
    }
    if g.big {
        v.push((3, (sel(), 0u8..48).prop_map(|(r, slack)| RrOp::BigRequest { r, slack }).boxed()));
    }
    if g.bursts {
        v.push((2, any::<u8>().prop_map(|n| RrOp::RegBurst { n }).boxed()));
    }
    proptest::strategy::Union::new_weighted(v).boxed()
}

pub fn case_strategy(g: RrGen) -> BoxedStrategy<RrCase> {
    (proptest::collection::vec(op_strategy(g), 0..g.max_len), any::<u16>(), 0u8..3, 0u8..3, 0u8..3, 2usize..4)
        .prop_map(move |(mut ops, payload_seed, with_prelude, c1, c2, nreq)| {
            if g.prelude && with_prelude > 0 {
                let mut pre = vec![RrOp::RegRep { cap: c1 }];
                for i in 0..nreq {
                    pre.push(RrOp::RegReq { cap: if i == 0 { c2 } else { 2 } });
                }
                pre.push(if g.wake_only { RrOp::Run } else { RrOp::Settle });
                pre.append(&mut ops);
                ops = pre;
            }
            RrCase { ops, wake_only: g.wake_only, payload_seed }
        })
        .boxed()
}

pub fn small_alphabet(close: bool) -> Vec<RrOp> {
    let mut v = vec![
        RrOp::RegReq { cap: 0 },
        RrOp::RegRep { cap: 0 },
        RrOp::Request { r: 0, hdr: 0 },
        RrOp::Request { r: 0xFFFF, hdr: 1 },
        RrOp::Reply { k: 0, which: 0, mutation: 0 },
        RrOp::Reply { k: 0, which: 0xFFFF, mutation: 9 },
        RrOp::EndRep { k: 0 },
        RrOp::Block { i: 0 },
        RrOp::Block { i: 0xFFFF },
        RrOp::Unblock { i: 0 },
        RrOp::Run,
        RrOp::Settle,
    ];
    if close {
        v.push(RrOp::Close);
    }
    v
}

pub fn enumerate_seqs(alpha: &[RrOp], len: usize, from: u64, to: u64) -> impl Iterator<Item = RrCase> + '_ {
    let k = alpha.len() as u64;
    (from..to).map(move |mut code| {
        let mut ops = Vec::with_capacity(len);
        for _ in 0..len {
            ops.push(alpha[(code % k) as usize].clone());
            code /= k;
        }
        RrCase { ops, wake_only: false, payload_seed: 11 }
    })
}
