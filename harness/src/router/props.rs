//! World-B property checks: C01, C02, C08, C09, C10, C16 (+ router half of C11)
use super::ps::{self, PsCase, PsFacts, PsGen};
use crate::core::{Ctx, Outcome, Tier};

fn ps_labels(f: &PsFacts) -> Vec<&'static str> {
    let mut l = vec![];
    if f.sink_pendings > 0 { l.push("sink-returned-pending"); }
    if f.pubs_yielded >= 2 { l.push("two-publishers-interleaved"); }
    if f.last_pub_end_flush_pending { l.push("last-publisher-ended-while-flush-pending"); }
    if f.reg_between_sends { l.push("registration-between-two-sends"); }
    if f.blocked_ready_with_item { l.push("sink-blocked-at-capacity"); }
    if f.subs_received > 0 { l.push("subscriber-received"); }
    if f.one_sided { l.push("one-sided-population"); }
    if f.closed { l.push("closed-mid-history"); }
    if f.close_with_blocked_or_buffered { l.push("close-with-blocked-or-buffered-sink"); }
    if f.close_after_socket { l.push("close-right-after-registration"); }
    if f.faults_observed_with_healthy_sibling > 0 { l.push("fault-observed-with-healthy-sibling"); }
    if f.stream_errs_yielded > 0 { l.push("publisher-stream-error-yielded"); }
    l
}

pub fn ps_eval(nontrivial: fn(&PsFacts) -> bool) -> impl Fn(&PsCase) -> Outcome + Send + Sync + 'static {
    move |c: &PsCase| {
        crate::core::watchdog::tick();
        let (o, f) = ps::run_case(c);
        match o {
            Outcome::Pass { .. } => Outcome::pass(ps_labels(&f), nontrivial(&f)),
            o => o,
        }
    }
}

pub fn c01_nontrivial(f: &PsFacts) -> bool {
    f.subs_received >= 1 && (f.sink_pendings > 0 || f.pubs_yielded >= 2)
}

pub fn c01(ctx: &mut Ctx) {
    ctx.rule = "pub/sub op sequences (RegPub/RegSub(cap)/Send/PushErr/EndPub/Block/Unblock/Run/Poll/Settle, 0-60 ops, <=3 publishers, <=4 subscribers) run against the real pubsub::Topic with harness-owned mock streams/sinks and executor; non-trivial = at least one subscriber received a frame AND (a sink returned Pending to the router OR two publishers were both pulled from); distinct by hash of the op sequence".into();
    ctx.assumptions.push("subscriber sinks are a model of FramedWrite over a flow-controlled stream (buffer on start_send, move to the wire on flush or when at capacity)".into());
    ctx.assumptions.push("cross-publisher order is not constrained (StreamMap start index is process-random)".into());
    let g = PsGen { faults: false, close: false, wake_only: false, max_len: 60 };
    let n = ctx.tier.pick(100_000, 3_000_000);
    ctx.search("ps-mixed", move || ps::case_strategy(g), n, true, ps_eval(c01_nontrivial));
    if ctx.failed() { return; }
    let g = PsGen { faults: false, close: false, wake_only: true, max_len: 60 };
    let n = ctx.tier.pick(50_000, 1_500_000);
    ctx.search("ps-wake-only", move || ps::case_strategy(g), n, true, ps_eval(c01_nontrivial));
    if ctx.failed() { return; }
    // bounded-exhaustive small scope
    let alpha = ps::small_alphabet(false, false);
    let maxlen = ctx.tier.pick(6, 8);
    ps_exhaustive(ctx, "ps-exhaustive", &alpha, maxlen, c01_nontrivial);
}

pub fn ps_exhaustive(ctx: &mut Ctx, leg: &str, alpha: &[ps::PsOp], maxlen: usize, nontrivial: fn(&PsFacts) -> bool) {
    use std::sync::{Arc, Mutex};
    let k = alpha.len() as u64;
    let t0 = std::time::Instant::now();
    let mut total = 0u64;
    let mut nontriv = 0u64;
    let mut first_fail: Option<(PsCase, String, String)> = None;
    'outer: for len in 0..=maxlen {
        let n = k.pow(len as u32);
        for end_all in [false, true] {
            let workers = ctx.workers.max(1) as u64;
            let chunk = (n + workers - 1) / workers;
            let res: Arc<Mutex<(u64, u64, Option<(PsCase, String, String)>)>> = Arc::new(Mutex::new((0, 0, None)));
            std::thread::scope(|sc| {
                for w in 0..workers {
                    let (from, to) = (w * chunk, ((w + 1) * chunk).min(n));
                    if from >= to { continue; }
                    let res = res.clone();
                    sc.spawn(move || {
                        let (mut t, mut nt) = (0u64, 0u64);
                        let mut ff = None;
                        for case in ps::enumerate_seqs(alpha, len, from, to, end_all) {
                            if t % 4096 == 0 { crate::core::watchdog::tick(); }
                            t += 1;
                            let (o, f) = ps::run_case(&case);
                            match o {
                                Outcome::Fail { clause, detail } => { ff = Some((case, clause, detail)); break; }
                                _ => if nontrivial(&f) { nt += 1 },
                            }
                        }
                        let mut r = res.lock().unwrap();
                        r.0 += t; r.1 += nt;
                        if r.2.is_none() { r.2 = ff; }
                    });
                }
            });
            let r = Arc::try_unwrap(res).ok().unwrap().into_inner().unwrap();
            total += r.0; nontriv += r.1;
            if let Some(f) = r.2 { first_fail = Some(f); break 'outer; }
        }
    }
    ctx.add_evaluations(total);
    // enumerated sequences are pairwise distinct by construction: count them as such
    for i in 0..nontriv.min(2_000_000) { ctx.add_nontrivial_hash(crate::core::mix(i, crate::core::hash_of(&leg))); }
    ctx.extra.insert(format!("{leg}"), serde_json::json!({
        "exhaustive": first_fail.is_none(), "alphabet": alpha, "max_len": maxlen, "sequences": total,
        "nontrivial": nontriv, "wall_s": t0.elapsed().as_secs_f64(), "closing_phase": ["idle", "end-all"]}));
    if first_fail.is_none() { ctx.exhaustive = Some(true); }
    if let Some((case, clause, detail)) = first_fail {
        ctx.report_violation_raw(leg, &case, &clause, &detail);
    }
}

pub fn replay_ps(ctx_id: &str, case: &serde_json::Value) -> i32 {
    crate::core::replay_case::<PsCase>(ctx_id, case, 64, |c| ps::run_case(c).0)
}

#[allow(dead_code)]
pub fn tier_cases(t: Tier, q: u32, th: u32) -> u32 { t.pick(q, th) }
