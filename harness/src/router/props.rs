//! World-B property checks: C01, C02, C08, C09, C10, C16 (+ router half of C11)
use super::ps::{self, PsCase, PsFacts, PsGen};
use super::direct::{self, DCase, DFacts};
use super::rr::{self, RrCase, RrFacts, RrGen, RrOpts};
use crate::core::{Ctx, Outcome, Tier};

fn ps_labels(f: &PsFacts) -> Vec<&'static str> {
    let mut l = vec![];
    if f.sink_pendings > 0 { l.push("sink-returned-pending"); }
    if f.pubs_yielded >= 2 { l.push("two-publishers-interleaved"); }
    if f.last_pub_end_flush_pending { l.push("last-publisher-ended-while-flush-pending"); }
    if f.reg_between_sends { l.push("registration-between-two-sends"); }
    if f.blocked_ready_with_item { l.push("sink-blocked-at-capacity"); }
    if f.subs_received > 0 { l.push("subscriber-received"); }
    if f.one_sided { l.push("one-sided-population"); }
    if f.closed { l.push("closed-mid-history"); }
    if f.close_with_blocked_or_buffered { l.push("close-with-blocked-or-buffered-sink"); }
    if f.close_after_socket { l.push("close-right-after-registration"); }
    if f.faults_observed_with_healthy_sibling > 0 { l.push("fault-observed-with-healthy-sibling"); }
    if f.stream_errs_yielded > 0 { l.push("publisher-stream-error-yielded"); }
    l
}

pub fn ps_eval(nontrivial: fn(&PsFacts) -> bool) -> impl Fn(&PsCase) -> Outcome + Send + Sync + 'static {
    move |c: &PsCase| {
        crate::core::watchdog::tick();
        let (o, f) = ps::run_case(c);
        match o {
            Outcome::Pass { .. } => Outcome::pass(ps_labels(&f), nontrivial(&f)),
            o => o,
        }
    }
}

pub fn c01_nontrivial(f: &PsFacts) -> bool {
    f.subs_received >= 1 && (f.sink_pendings > 0 || f.pubs_yielded >= 2)
}

pub fn c01(ctx: &mut Ctx) {
    ctx.rule = "pub/sub op sequences (RegPub/RegSub(cap)/Send/PushErr/EndPub/Block/Unblock/Run/Poll/Settle, 0-60 ops, <=3 publishers, <=4 subscribers) run against the real pubsub::Topic with harness-owned mock streams/sinks and executor; non-trivial = at least one subscriber received a frame AND (a sink returned Pending to the router OR two publishers were both pulled from); distinct by hash of the op sequence".into();
    ctx.assumptions.push("subscriber sinks are a model of FramedWrite over a flow-controlled stream (buffer on start_send, move to the wire on flush or when at capacity)".into());
    ctx.assumptions.push("cross-publisher order is not constrained (StreamMap start index is process-random)".into());
    let g = PsGen { bursts: true, faults: false, close: false, wake_only: false, max_len: 60 };
    let n = ctx.tier.pick(100_000, 3_000_000);
    ctx.search("ps-mixed", move || ps::case_strategy(g), n, true, ps_eval(c01_nontrivial));
    if ctx.failed() { return; }
    let g = PsGen { bursts: false, faults: false, close: false, wake_only: true, max_len: 60 };
    let n = ctx.tier.pick(50_000, 1_500_000);
    ctx.search("ps-wake-only", move || ps::case_strategy(g), n, true, ps_eval(c01_nontrivial));
    if ctx.failed() { return; }
    // subscribers that fail: the ones that stay healthy still get everything
    let g = PsGen { bursts: false, faults: true, close: false, wake_only: false, max_len: 60 };
    ctx.search("ps-with-failing-siblings", move || ps::case_strategy(g), ctx.tier.pick(60_000, 2_000_000), true, |c: &PsCase| {
        crate::core::watchdog::tick();
        let (o, f) = ps::run_case(c);
        match o { Outcome::Pass { .. } => Outcome::pass(ps_labels(&f), f.faults_observed_with_healthy_sibling > 0 && f.subs_received > 0), o => o }
    });
    if ctx.failed() { return; }
    // the same under the strictly wake-driven executor: nothing papers over a flush that was skipped
    let g = PsGen { bursts: false, faults: true, close: false, wake_only: true, max_len: 60 };
    ctx.search("ps-with-failing-siblings-wake-only", move || ps::case_strategy(g), ctx.tier.pick(60_000, 2_000_000), true, |c: &PsCase| {
        crate::core::watchdog::tick();
        let (o, f) = ps::run_case(c);
        match o { Outcome::Pass { .. } => Outcome::pass(ps_labels(&f), f.faults_observed_with_healthy_sibling > 0 && f.subs_received > 0), o => o }
    });
    if ctx.failed() { return; }
    // bounded-exhaustive small scope
    let alpha = ps::small_alphabet(false, false);
    let maxlen = ctx.tier.pick(6, 8);
    ps_exhaustive(ctx, "ps-exhaustive", &alpha, maxlen, c01_nontrivial);
}

pub fn ps_exhaustive(ctx: &mut Ctx, leg: &str, alpha: &[ps::PsOp], maxlen: usize, nontrivial: fn(&PsFacts) -> bool) {
    if let Ok(only) = std::env::var("VERIF_LEGS") { if !only.split(',').any(|l| l == leg) { return; } }
    use std::sync::{Arc, Mutex};
    let k = alpha.len() as u64;
    let t0 = std::time::Instant::now();
    let mut total = 0u64;
    let mut nontriv = 0u64;
    let mut first_fail: Option<(PsCase, String, String)> = None;
    'outer: for len in 0..=maxlen {
        let n = k.pow(len as u32);
        for end_all in [false, true] {
            let workers = ctx.workers.max(1) as u64;
            let chunk = (n + workers - 1) / workers;
            let res: Arc<Mutex<(u64, u64, Option<(PsCase, String, String)>)>> = Arc::new(Mutex::new((0, 0, None)));
            std::thread::scope(|sc| {
                for w in 0..workers {
                    let (from, to) = (w * chunk, ((w + 1) * chunk).min(n));
                    if from >= to { continue; }
                    let res = res.clone();
                    sc.spawn(move || {
                        let (mut t, mut nt) = (0u64, 0u64);
                        let mut ff = None;
                        for case in ps::enumerate_seqs(alpha, len, from, to, end_all) {
                            if t % 4096 == 0 { crate::core::watchdog::tick(); }
                            t += 1;
                            let (o, f) = ps::run_case(&case);
                            match o {
                                Outcome::Fail { clause, detail } => { ff = Some((case, clause, detail)); break; }
                                _ => if nontrivial(&f) { nt += 1 },
                            }
                        }
                        let mut r = res.lock().unwrap();
                        r.0 += t; r.1 += nt;
                        if r.2.is_none() { r.2 = ff; }
                    });
                }
            });
            let r = Arc::try_unwrap(res).ok().unwrap().into_inner().unwrap();
            total += r.0; nontriv += r.1;
            if let Some(f) = r.2 { first_fail = Some(f); break 'outer; }
        }
    }
    ctx.add_evaluations(total);
    // enumerated sequences are pairwise distinct by construction: count them as such
    for i in 0..nontriv.min(2_000_000) { ctx.add_nontrivial_hash(crate::core::mix(i, crate::core::hash_of(&leg))); }
    ctx.extra.insert(format!("{leg}"), serde_json::json!({
        "exhaustive": first_fail.is_none(), "alphabet": alpha, "max_len": maxlen, "sequences": total,
        "nontrivial": nontriv, "wall_s": t0.elapsed().as_secs_f64(), "closing_phase": ["idle", "end-all"]}));
    if first_fail.is_none() { ctx.exhaustive = Some(true); }
    if let Some((case, clause, detail)) = first_fail {
        ctx.report_violation_raw(leg, &case, &clause, &detail);
    }
}

pub fn replay_ps(ctx_id: &str, case: &serde_json::Value) -> i32 {
    crate::core::replay_case::<PsCase>(ctx_id, case, 64, |c| ps::run_case(c).0)
}

#[allow(dead_code)]
pub fn tier_cases(t: Tier, q: u32, th: u32) -> u32 { t.pick(q, th) }

// ---------------------------------------------------------------- req/rep
fn rr_labels(f: &RrFacts) -> Vec<&'static str> {
    let mut l = vec![];
    if f.sink_pendings > 0 { l.push("sink-returned-pending"); }
    if f.pending_while_reply_in_flight { l.push("requestor-sink-blocked-while-reply-in-flight"); }
    if f.requestors_with_exchange >= 2 { l.push("two-requestors-completed-exchanges"); }
    if f.forged > 0 { l.push("requestor-supplied-routing-tag"); }
    if f.bad_tags > 0 { l.push("reply-with-bad-tag"); }
    if f.cross_tags > 0 { l.push("reply-tagged-for-other-requestor"); }
    if f.rejected > 0 { l.push("replier-rejected"); }
    if f.rejected_back_to_back { l.push("two-rejections-back-to-back"); }
    if f.rejected_sink_pending { l.push("rejected-replier-sink-pending"); }
    if f.rebinds > 0 { l.push("rebind-after-departure"); }
    if f.must_reject > 0 { l.push("model-must-reject"); }
    if f.ambiguous > 0 { l.push("model-ambiguous-binding"); }
    if f.one_sided { l.push("one-sided-population"); }
    if f.closed { l.push("closed-mid-history"); }
    if f.close_with_blocked_or_buffered { l.push("close-with-blocked-or-buffered-sink"); }
    if f.close_after_socket { l.push("close-right-after-registration"); }
    if f.faults_observed > 0 { l.push("fault-observed-by-router"); }
    if f.junk > 0 { l.push("non-message-frame-mid-stream"); }
    if f.big_over > 0 { l.push("request-oversize-after-tagging"); }
    if f.probe_ok { l.push("probe-exchange-completed"); }
    l
}

pub fn rr_eval(opts: RrOpts, nontrivial: fn(&RrFacts) -> bool) -> impl Fn(&RrCase) -> Outcome + Send + Sync + 'static {
    move |c: &RrCase| {
        crate::core::watchdog::tick();
        let (o, f) = rr::run_case(c, opts);
        match o {
            Outcome::Pass { .. } => Outcome::pass(rr_labels(&f), nontrivial(&f)),
            o => o,
        }
    }
}

pub fn rr_exhaustive(ctx: &mut Ctx, leg: &str, alpha: &[rr::RrOp], maxlen: usize, opts: RrOpts, nontrivial: fn(&RrFacts) -> bool) {
    if let Ok(only) = std::env::var("VERIF_LEGS") { if !only.split(',').any(|l| l == leg) { return; } }
    use std::sync::{Arc, Mutex};
    let k = alpha.len() as u64;
    let t0 = std::time::Instant::now();
    let (mut total, mut nontriv) = (0u64, 0u64);
    let mut first_fail: Option<(RrCase, String, String)> = None;
    'outer: for len in 0..=maxlen {
        let n = k.pow(len as u32);
        let workers = ctx.workers.max(1) as u64;
        let chunk = (n + workers - 1) / workers;
        let res: Arc<Mutex<(u64, u64, Option<(RrCase, String, String)>)>> = Arc::new(Mutex::new((0, 0, None)));
        std::thread::scope(|sc| {
            for w in 0..workers {
                let (from, to) = (w * chunk, ((w + 1) * chunk).min(n));
                if from >= to { continue; }
                let res = res.clone();
                sc.spawn(move || {
                    let (mut t, mut nt) = (0u64, 0u64);
                    let mut ff = None;
                    for case in rr::enumerate_seqs(alpha, len, from, to) {
                        if t % 4096 == 0 { crate::core::watchdog::tick(); }
                        t += 1;
                        let (o, f) = rr::run_case(&case, opts);
                        match o {
                            Outcome::Fail { clause, detail } => { ff = Some((case, clause, detail)); break; }
                            _ => if nontrivial(&f) { nt += 1 },
                        }
                    }
                    let mut r = res.lock().unwrap();
                    r.0 += t; r.1 += nt;
                    if r.2.is_none() { r.2 = ff; }
                });
            }
        });
        let r = Arc::try_unwrap(res).ok().unwrap().into_inner().unwrap();
        total += r.0; nontriv += r.1;
        if let Some(f) = r.2 { first_fail = Some(f); break 'outer; }
    }
    ctx.add_evaluations(total);
    for i in 0..nontriv.min(2_000_000) { ctx.add_nontrivial_hash(crate::core::mix(i, crate::core::hash_of(&leg))); }
    ctx.extra.insert(leg.to_string(), serde_json::json!({
        "exhaustive": first_fail.is_none(), "alphabet": alpha, "max_len": maxlen, "sequences": total,
        "nontrivial": nontriv, "wall_s": t0.elapsed().as_secs_f64()}));
    if first_fail.is_none() { ctx.exhaustive = Some(true); }
    if let Some((case, clause, detail)) = first_fail {
        ctx.report_violation_raw(leg, &case, &clause, &detail);
    }
}

pub fn c02_nontrivial(f: &RrFacts) -> bool {
    f.requestors_with_exchange >= 2 && (f.pending_while_reply_in_flight || f.sink_pendings > 0 || f.forged > 0 || f.bad_tags > 0 || f.cross_tags > 0)
}

pub fn c02(ctx: &mut Ctx) {
    ctx.rule = "req/rep op sequences (RegReq/RegRep/Request(header variants incl. requestor-supplied cid)/Reply(tag mutations: removed, no headers, unknown, malformed, other requestor's)/End*/PushErr*/Block/Unblock/Run/Poll/Settle, 0-70 ops, <=3 requestors, <=5 repliers; no CloseChannel) against the real reqrep::Topic + sink::Router with mock peers; non-trivial = >=2 requestors each completed an exchange AND (a sink returned Pending, or a requestor-supplied/forged tag, or a bad/cross tag reply occurred); distinct by hash of the op sequence".into();
    ctx.assumptions.push("routing tags are treated as opaque tokens learned from the first request of each requestor".into());
    ctx.assumptions.push("requests pulled while no replier is surely bound may be dropped (at most once)".into());
    ctx.assumptions.push("reply order towards one requestor is not constrained".into());
    let g = RrGen { faults: false, close: false, wake_only: false, junk: false, big: false, many_repliers: false, bursts: false, max_len: 70, prelude: true };
    ctx.search("rr-mixed", move || rr::case_strategy(g), ctx.tier.pick(100_000, 3_000_000), true, rr_eval(RrOpts::default(), c02_nontrivial));
    if ctx.failed() { return; }
    let g = RrGen { wake_only: true, ..g };
    ctx.search("rr-wake-only", move || rr::case_strategy(g), ctx.tier.pick(50_000, 1_500_000), true, rr_eval(RrOpts::default(), c02_nontrivial));
    if ctx.failed() { return; }
    let alpha = rr::small_alphabet(false);
    rr_exhaustive(ctx, "rr-exhaustive", &alpha, ctx.tier.pick(5, 7), RrOpts::default(), c02_nontrivial);
}

pub fn c10_nontrivial(f: &RrFacts) -> bool {
    f.repliers >= 2 && f.rejected >= 1 && (f.rejected_back_to_back || f.rejected_sink_pending || f.rebinds > 0)
}

pub fn c10(ctx: &mut Ctx) {
    ctx.rule = "req/rep op sequences biased to several replier registrations/departures (1-5 repliers) interleaved with requests, replies and block/unblock of any sink incl. the rejected repliers' sinks (one leg also lets sinks fail, so that a replier departs with a failing flush); binding reference model: FIFO registration, a replier registered while an earlier one is surely bound must see exactly [Error(REPLIER_ALREADY_BOUND)] then close, a replier registered after all earlier ones surely left must be bound and served; non-trivial = >=2 repliers, >=1 rejected, and (two rejections back-to-back, or a rejected sink returned Pending, or a rebind happened)".into();
    ctx.assumptions.push("'surely' = separated by a Settle (spurious polls + run) with no sink blocked; otherwise either outcome (bound or properly rejected) is accepted, never a half-rejected replier".into());
    let g = RrGen { faults: false, close: false, wake_only: false, junk: false, big: false, many_repliers: true, bursts: false, max_len: 60, prelude: false };
    ctx.search("rr-repliers", move || rr::case_strategy(g), ctx.tier.pick(120_000, 3_000_000), true, rr_eval(RrOpts { probe: true }, c10_nontrivial));
    if ctx.failed() { return; }
    let g = RrGen { wake_only: true, ..g };
    ctx.search("rr-repliers-wake-only", move || rr::case_strategy(g), ctx.tier.pick(50_000, 1_000_000), true, rr_eval(RrOpts { probe: true }, c10_nontrivial));
    if ctx.failed() { return; }
    // departures that are not clean: the leaving (or rejected) replier's sink fails meanwhile
    let g = RrGen { faults: true, wake_only: false, ..g };
    ctx.search("rr-repliers-with-faults", move || rr::case_strategy(g), ctx.tier.pick(50_000, 1_000_000), true, rr_eval(RrOpts { probe: true }, c10_nontrivial));
    if ctx.failed() { return; }
    let alpha = vec![
        rr::RrOp::RegReq { cap: 2 }, rr::RrOp::RegRep { cap: 0 }, rr::RrOp::RegRep { cap: 2 }, rr::RrOp::Request { r: 0, hdr: 0 },
        rr::RrOp::Reply { k: 0, which: 0, mutation: 0 }, rr::RrOp::EndRep { k: 0 }, rr::RrOp::EndRep { k: 0xFFFF },
        rr::RrOp::Block { i: 0xFFFF }, rr::RrOp::Unblock { i: 0xFFFF }, rr::RrOp::Run, rr::RrOp::Settle,
    ];
    rr_exhaustive(ctx, "rr-repliers-exhaustive", &alpha, ctx.tier.pick(5, 7), RrOpts { probe: true }, c10_nontrivial);
}

pub fn c09_ps_nontrivial(f: &PsFacts) -> bool { f.router_pendings >= 2 || f.one_sided }
pub fn c09_rr_nontrivial(f: &RrFacts) -> bool { f.router_pendings >= 2 || f.one_sided }

pub fn c09(ctx: &mut Ctx) {
    ctx.rule = "both routers under a strictly wake-driven executor (only Run steps; the router is re-polled only when it was woken) plus a mixed leg with spurious polls for the spin bound; every mock call inside one poll is counted and must stay under max(50000, 16*(work+2)*(peers+4)); at quiescence every queued item of every registered stream has been pulled, every healthy sink is flushed, every registration was processed, and closing the channel completes the future; non-trivial = the router returned Pending at least twice or the population is one-sided (nobody / only publishers / only subscribers / only a replier / only requestors)".into();
    ctx.assumptions.push("mocks honour the waker contract strictly: they wake exactly the last waker they were given when they become ready".into());
    ctx.assumptions.push("a loop that calls no mock at all is only caught by the watchdog (exit 2)".into());
    let g = PsGen { bursts: false, faults: false, close: false, wake_only: true, max_len: 50 };
    ctx.search("ps-wake-only", move || ps::case_strategy(g), ctx.tier.pick(80_000, 2_000_000), true, ps_eval(c09_ps_nontrivial));
    if ctx.failed() { return; }
    let g = PsGen { bursts: false, faults: true, close: true, wake_only: false, max_len: 50 };
    ctx.search("ps-spin", move || ps::case_strategy(g), ctx.tier.pick(40_000, 1_000_000), true, ps_eval(c09_ps_nontrivial));
    if ctx.failed() { return; }
    let g = RrGen { faults: false, close: false, wake_only: true, junk: false, big: false, many_repliers: false, bursts: false, max_len: 50, prelude: false };
    ctx.search("rr-wake-only", move || rr::case_strategy(g), ctx.tier.pick(80_000, 2_000_000), true, rr_eval(RrOpts::default(), c09_rr_nontrivial));
    if ctx.failed() { return; }
    let gb = PsGen { bursts: true, faults: false, close: true, wake_only: true, max_len: 30 };
    ctx.search("ps-wake-only-bursts", move || ps::case_strategy(gb), ctx.tier.pick(20_000, 400_000), true, ps_eval(|f| f.bursts > 0));
    if ctx.failed() { return; }
    let gb = RrGen { bursts: true, ..g };
    ctx.search("rr-wake-only-bursts", move || rr::case_strategy(gb), ctx.tier.pick(20_000, 400_000), true, rr_eval(RrOpts::default(), |f| f.requestors > 8));
    if ctx.failed() { return; }
    let g = RrGen { many_repliers: true, ..g };
    ctx.search("rr-wake-only-repliers", move || rr::case_strategy(g), ctx.tier.pick(40_000, 1_000_000), true, rr_eval(RrOpts::default(), c09_rr_nontrivial));
    if ctx.failed() { return; }
    let g = RrGen { faults: true, close: true, wake_only: false, junk: false, big: false, many_repliers: false, bursts: false, max_len: 50, prelude: false };
    ctx.search("rr-spin", move || rr::case_strategy(g), ctx.tier.pick(40_000, 1_000_000), true, rr_eval(RrOpts::default(), c09_rr_nontrivial));
    if ctx.failed() { return; }
    // one-sided populations, exhaustively: sequences over one-sided alphabets
    let ps_only_pubs = vec![ps::PsOp::RegPub, ps::PsOp::Send { p: 0, k: 0 }, ps::PsOp::Send { p: 0xFFFF, k: 1 }, ps::PsOp::EndPub { p: 0 }, ps::PsOp::Run, ps::PsOp::Poll];
    ps_exhaustive(ctx, "ps-only-publishers", &ps_only_pubs, ctx.tier.pick(6, 8), c09_ps_nontrivial);
    if ctx.failed() { return; }
    let ps_only_subs = vec![ps::PsOp::RegSub { cap: 0 }, ps::PsOp::RegSub { cap: 3 }, ps::PsOp::Block { s: 0 }, ps::PsOp::Unblock { s: 0 }, ps::PsOp::Run, ps::PsOp::Poll];
    ps_exhaustive(ctx, "ps-only-subscribers", &ps_only_subs, ctx.tier.pick(6, 8), c09_ps_nontrivial);
    if ctx.failed() { return; }
    let rr_only_rep = vec![rr::RrOp::RegRep { cap: 0 }, rr::RrOp::EndRep { k: 0 }, rr::RrOp::Block { i: 0 }, rr::RrOp::Unblock { i: 0 }, rr::RrOp::Run, rr::RrOp::Poll];
    rr_exhaustive(ctx, "rr-only-repliers", &rr_only_rep, ctx.tier.pick(6, 8), RrOpts::default(), c09_rr_nontrivial);
    if ctx.failed() { return; }
    let rr_only_req = vec![rr::RrOp::RegReq { cap: 0 }, rr::RrOp::Request { r: 0, hdr: 0 }, rr::RrOp::EndReq { r: 0 }, rr::RrOp::Block { i: 0 }, rr::RrOp::Run, rr::RrOp::Poll];
    rr_exhaustive(ctx, "rr-only-requestors", &rr_only_req, ctx.tier.pick(6, 8), RrOpts::default(), c09_rr_nontrivial);
}

pub fn c16_ps_nontrivial(f: &PsFacts) -> bool { f.closed && f.close_with_peers && (f.close_with_blocked_or_buffered || f.close_after_socket) }
pub fn c16_rr_nontrivial(f: &RrFacts) -> bool { f.closed && f.close_with_peers && (f.close_with_blocked_or_buffered || f.close_after_socket || f.one_sided) }

pub fn c16(ctx: &mut Ctx) {
    ctx.rule = "router histories with CloseChannel (what Server::shutdown calls) inserted at a generated position, followed by more sends/blocks/unblocks (two legs also let subscriber sinks fail at poll_ready/start_send/flush, before and during the final flush); closing phase unblocks every sink and runs wake-driven; oracle: the future completes (bounded polls) and, for pub/sub, every frame pulled from a publisher is on the wire of every healthy adopted subscriber exactly once in order and nothing is left unflushed; non-trivial = close happened while >=1 peer was registered and (a sink was blocked or had buffered data, or the previous op was a registration, or (req/rep) only one side was connected)".into();
    ctx.assumptions.push("world B does not include Server::shutdown's join_all; req/rep only promises termination (buffered requests/replies at shutdown are not claimed)".into());
    let g = PsGen { bursts: false, faults: false, close: true, wake_only: false, max_len: 50 };
    ctx.search("ps-close", move || ps::case_strategy(g), ctx.tier.pick(100_000, 3_000_000), true, ps_eval(c16_ps_nontrivial));
    if ctx.failed() { return; }
    let g = PsGen { bursts: false, faults: false, close: true, wake_only: true, max_len: 50 };
    ctx.search("ps-close-wake-only", move || ps::case_strategy(g), ctx.tier.pick(60_000, 1_500_000), true, ps_eval(c16_ps_nontrivial));
    if ctx.failed() { return; }
    // the final flush with subscribers failing in it: the healthy ones still get everything
    let g = PsGen { bursts: false, faults: true, close: true, wake_only: false, max_len: 50 };
    ctx.search("ps-close-with-faults", move || ps::case_strategy(g), ctx.tier.pick(60_000, 1_500_000), true, ps_eval(c16_ps_nontrivial));
    if ctx.failed() { return; }
    let g = PsGen { wake_only: true, ..g };
    ctx.search("ps-close-with-faults-wake-only", move || ps::case_strategy(g), ctx.tier.pick(40_000, 1_000_000), true, ps_eval(c16_ps_nontrivial));
    if ctx.failed() { return; }
    let g = RrGen { faults: false, close: true, wake_only: false, junk: false, big: false, many_repliers: false, bursts: false, max_len: 50, prelude: false };
    ctx.search("rr-close", move || rr::case_strategy(g), ctx.tier.pick(100_000, 3_000_000), true, rr_eval(RrOpts::default(), c16_rr_nontrivial));
    if ctx.failed() { return; }
    let g = RrGen { wake_only: true, many_repliers: true, ..g };
    ctx.search("rr-close-wake-only", move || rr::case_strategy(g), ctx.tier.pick(60_000, 1_500_000), true, rr_eval(RrOpts::default(), c16_rr_nontrivial));
    if ctx.failed() { return; }
    ctx.search("ps-close-during-poll", super::closepoll::strategy, ctx.tier.pick(3_000, 60_000), true, super::closepoll::run_case);
    if ctx.failed() { return; }
    ctx.search("rr-close-during-poll", super::closepoll::strategy, ctx.tier.pick(3_000, 60_000), true, super::closepoll::run_case_rr);
    if ctx.failed() { return; }
    let alpha = ps::small_alphabet(true, false);
    ps_exhaustive(ctx, "ps-close-exhaustive", &alpha, ctx.tier.pick(5, 7), c16_ps_nontrivial);
    if ctx.failed() { return; }
    let alpha = rr::small_alphabet(true);
    rr_exhaustive(ctx, "rr-close-exhaustive", &alpha, ctx.tier.pick(5, 6), RrOpts::default(), c16_rr_nontrivial);
}

pub fn replay_rr(ctx_id: &str, leg: &str, case: &serde_json::Value) -> i32 {
    let probe = leg.contains("repliers") || leg.contains("faults") || leg.contains("frames");
    crate::core::replay_case::<RrCase>(ctx_id, case, 64, move |c| rr::run_case(c, RrOpts { probe }).0)
}

// ---------------------------------------------------------------- C08
fn d_labels(c: &DCase, f: &DFacts) -> Vec<&'static str> {
    let mut l = vec![];
    l.push(if c.router { "router" } else { "fanout" });
    if f.faults_observed > 0 { l.push("fault-observed"); }
    if f.fail_first { l.push("failed-member-first"); }
    if f.fail_middle { l.push("failed-member-middle"); }
    if f.fail_last { l.push("failed-member-last"); }
    if f.fail_at[1] { l.push("fail-at-poll_ready"); }
    if f.fail_at[2] { l.push("fail-at-start_send"); }
    if f.fail_at[3] { l.push("fail-at-poll_flush"); }
    if f.pendings > 0 { l.push("member-returned-pending"); }
    l
}
pub fn d_eval(c: &DCase) -> Outcome {
    crate::core::watchdog::tick();
    let (o, f) = direct::run_case(c);
    match o {
        Outcome::Pass { .. } => Outcome::pass(d_labels(c, &f), f.faults_observed > 0 && f.healthy > 0 && f.delivered > 0),
        o => o,
    }
}
fn ps_fault_labels(f: &PsFacts) -> Vec<&'static str> {
    let mut l = ps_labels(f);
    if f.fault_at[1] > 0 { l.push("fail-at-poll_ready"); }
    if f.fault_at[2] > 0 { l.push("fail-at-start_send"); }
    if f.fault_at[3] > 0 { l.push("fail-at-poll_flush"); }
    if f.fault_pos_first > 0 { l.push("failed-subscriber-first"); }
    if f.fault_pos_middle > 0 { l.push("failed-subscriber-middle"); }
    if f.fault_pos_last > 0 { l.push("failed-subscriber-last"); }
    l
}
fn rr_fault_labels(f: &RrFacts) -> Vec<&'static str> {
    let mut l = rr_labels(f);
    if f.fault_at[1] > 0 { l.push("fail-at-poll_ready"); }
    if f.fault_at[2] > 0 { l.push("fail-at-start_send"); }
    if f.fault_at[3] > 0 { l.push("fail-at-poll_flush"); }
    if f.fault_role_req > 0 { l.push("requestor-failed"); }
    if f.fault_role_rep > 0 { l.push("replier-failed"); }
    l
}

pub fn c08(ctx: &mut Ctx) {
    ctx.rule = "fault x position x operation generation: (a) FanoutMany and Router driven directly through the Sink contract with member sinks that fail at poll_ready/start_send/poll_flush or block, (b) both routers with the C01/C02 alphabets plus Fail(peer, at) for subscriber/requestor/replier sinks (optionally the whole connection: the peer's stream also errors and ends) and stream errors/ends, followed by a probe exchange; oracle: no panic, every never-failed sink satisfies the full delivery oracle over the whole history, a new replier can bind and serve after a replier failure; non-trivial = the code under test was actually handed an Err by a mock sink while >=1 healthy sibling existed and received data".into();
    ctx.assumptions.push("a failed sink keeps failing (a broken connection does not heal); a sink failure wakes its waiter".into());
    ctx.search("fanout-direct", || direct::case_strategy(false), ctx.tier.pick(60_000, 2_000_000), true, d_eval);
    if ctx.failed() { return; }
    ctx.search("router-direct", || direct::case_strategy(true), ctx.tier.pick(60_000, 2_000_000), true, d_eval);
    if ctx.failed() { return; }
    let g = PsGen { bursts: false, faults: true, close: false, wake_only: false, max_len: 60 };
    ctx.search("ps-faults", move || ps::case_strategy(g), ctx.tier.pick(100_000, 3_000_000), true, |c: &PsCase| {
        crate::core::watchdog::tick();
        let (o, f) = ps::run_case(c);
        match o { Outcome::Pass { .. } => Outcome::pass(ps_fault_labels(&f), f.faults_observed_with_healthy_sibling > 0 && f.subs_received > 0), o => o }
    });
    if ctx.failed() { return; }
    let g = PsGen { bursts: false, faults: true, close: false, wake_only: true, max_len: 60 };
    ctx.search("ps-faults-wake-only", move || ps::case_strategy(g), ctx.tier.pick(60_000, 2_000_000), true, |c: &PsCase| {
        crate::core::watchdog::tick();
        let (o, f) = ps::run_case(c);
        match o { Outcome::Pass { .. } => Outcome::pass(ps_fault_labels(&f), f.faults_observed_with_healthy_sibling > 0 && f.subs_received > 0), o => o }
    });
    if ctx.failed() { return; }
    let g = RrGen { faults: true, close: false, wake_only: true, junk: false, big: false, many_repliers: true, bursts: false, max_len: 60, prelude: false };
    ctx.search("rr-faults-wake-only", move || rr::case_strategy(g), ctx.tier.pick(60_000, 2_000_000), true, |c: &RrCase| {
        crate::core::watchdog::tick();
        let (o, f) = rr::run_case(c, RrOpts { probe: true });
        match o { Outcome::Pass { .. } => Outcome::pass(rr_fault_labels(&f), f.faults_observed > 0 && (f.replies_delivered > 0 || f.probe_ok)), o => o }
    });
    if ctx.failed() { return; }
    let g = RrGen { faults: true, close: false, wake_only: false, junk: false, big: false, many_repliers: true, bursts: false, max_len: 60, prelude: false };
    ctx.search("rr-faults", move || rr::case_strategy(g), ctx.tier.pick(100_000, 3_000_000), true, |c: &RrCase| {
        crate::core::watchdog::tick();
        let (o, f) = rr::run_case(c, RrOpts { probe: true });
        match o { Outcome::Pass { .. } => Outcome::pass(rr_fault_labels(&f), f.faults_observed > 0 && (f.replies_delivered > 0 || f.probe_ok)), o => o }
    });
    if ctx.failed() { return; }
    let alpha = ps::small_alphabet(false, true);
    ps_exhaustive(ctx, "ps-faults-exhaustive", &alpha, ctx.tier.pick(5, 6), |f| f.faults_observed_with_healthy_sibling > 0);
}

pub fn replay_d(ctx_id: &str, case: &serde_json::Value) -> i32 {
    crate::core::replay_case::<DCase>(ctx_id, case, 4, |c| direct::run_case(c).0)
}

// ---------------------------------------------------------------- C11 (router half)
pub fn c11_router(ctx: &mut Ctx) {
    let g = RrGen { faults: false, close: false, wake_only: false, junk: true, big: true, many_repliers: false, bursts: false, max_len: 50, prelude: true };
    ctx.search("rr-frames", move || rr::case_strategy(g), ctx.tier.pick(40_000, 1_500_000), true, |c: &RrCase| {
        crate::core::watchdog::tick();
        let (o, f) = rr::run_case(c, RrOpts { probe: true });
        match o { Outcome::Pass { .. } => Outcome::pass(rr_labels(&f), f.junk > 0 || f.big_over > 0), o => o }
    });
    if ctx.failed() { return; }
    // the same frame sequences while peers' sinks fail at poll_ready / start_send / poll_flush and
    // whole connections go away: a peer that dies between its frame and the answer to it must not
    // take the router (and with it every later registration on the topic) down
    let g = RrGen { faults: true, ..g };
    ctx.search("rr-frames-with-dying-peers", move || rr::case_strategy(g), ctx.tier.pick(30_000, 1_000_000), true, |c: &RrCase| {
        crate::core::watchdog::tick();
        let (o, f) = rr::run_case(c, RrOpts { probe: true });
        match o { Outcome::Pass { .. } => Outcome::pass(rr_fault_labels(&f), f.faults_observed > 0), o => o }
    });
}
