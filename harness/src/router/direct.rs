//! C08, lowest level: `FanoutMany` and `Router` driven directly through the `Sink`
//! contract with failing / blocking member sinks.
use super::mock::*;
use crate::core::{catch, panics, pick_idx, Outcome};
use bytes::Bytes;
use futures::Sink;
use proptest::prelude::*;
use selium_protocol::{Frame, MessagePayload};
use selium_server::sink::{FanoutMany, Router};
use serde::{Deserialize, Serialize};
use std::collections::HashMap;
use std::pin::Pin;
use std::sync::Arc;
use std::task::{Context, Poll, Wake, Waker};

#[derive(Debug, Clone, Serialize, Deserialize, Hash, PartialEq, Eq)]
pub enum DOp {
    /// poll_ready, and if ready start_send the next item (Router: addressed to sink `to`)
    Send { to: u16 },
    Flush,
    Block { i: u16 },
    Unblock { i: u16 },
    Fail { i: u16, at: u8 },
    /// add one more member sink
    Insert { cap: u8 },
}

#[derive(Debug, Clone, Serialize, Deserialize, Hash, PartialEq, Eq)]
pub struct DCase {
    pub router: bool,
    pub caps: Vec<u8>,
    pub ops: Vec<DOp>,
}

struct Nop;
impl Wake for Nop {
    fn wake(self: Arc<Self>) {}
}

#[derive(Default, Debug)]
pub struct DFacts {
    pub faults_observed: usize,
    pub healthy: usize,
    pub fail_first: bool,
    pub fail_middle: bool,
    pub fail_last: bool,
    pub fail_at: [bool; 4],
    pub pendings: usize,
    pub delivered: usize,
}

const CAPS: [usize; 3] = [1, 2, 1000];

pub fn run_case(case: &DCase) -> (Outcome, DFacts) {
    let mut facts = DFacts::default();
    let r = catch(|| run_inner(case, &mut facts));
    match r {
        Ok(Ok(())) => (Outcome::pass(vec![], false), facts),
        Ok(Err(o)) => (o, facts),
        Err(p) => (Outcome::fail(format!("panic:{}", panics::normalise(&p)), format!("panicked: {p}")), facts),
    }
}

enum Agg {
    F(FanoutMany<usize, MockSink>),
    R(Router<usize, MockSink>),
}
impl Agg {
    fn poll_ready(&mut self, cx: &mut Context<'_>) -> Poll<Result<(), String>> {
        match self {
            Agg::F(f) => Pin::new(f).poll_ready(cx).map_err(|e| format!("{e:?}")),
            Agg::R(r) => Pin::new(r).poll_ready(cx).map_err(|e| format!("{e:?}")),
        }
    }
    fn start_send(&mut self, f: Frame) -> Result<(), String> {
        match self {
            Agg::F(a) => Pin::new(a).start_send(f).map_err(|e| format!("{e:?}")),
            Agg::R(r) => Pin::new(r).start_send(f).map_err(|e| format!("{e:?}")),
        }
    }
    fn poll_flush(&mut self, cx: &mut Context<'_>) -> Poll<Result<(), String>> {
        match self {
            Agg::F(f) => Pin::new(f).poll_flush(cx).map_err(|e| format!("{e:?}")),
            Agg::R(r) => Pin::new(r).poll_flush(cx).map_err(|e| format!("{e:?}")),
        }
    }
    fn insert(&mut self, k: usize, s: MockSink) {
        match self {
            Agg::F(f) => {
                f.insert(k, s);
            }
            Agg::R(r) => {
                r.insert(k, s);
            }
        }
    }
}

fn run_inner(case: &DCase, facts: &mut DFacts) -> Result<(), Outcome> {
    reset_inner(1_000_000);
    let w = Waker::from(Arc::new(Nop));
    let mut cx = Context::from_waker(&w);
    let mut sinks: Vec<MockSink> = vec![];
    let mut agg = if case.router { Agg::R(Router::new()) } else { Agg::F(FanoutMany::new()) };
    for c in case.caps.iter().take(5) {
        let s = MockSink::new(CAPS[*c as usize % 3]);
        agg.insert(sinks.len(), s.clone());
        sinks.push(s);
    }
    // what each sink must have received: (joined_at item index for fanout) / addressed items for router
    let mut joined_at: Vec<usize> = vec![0; sinks.len()];
    let mut sent: Vec<(usize, Frame)> = vec![]; // (target or usize::MAX for all, frame as handed in)
    let mut next = 0usize;
    let mk = |n: usize, to: Option<usize>| -> Frame {
        let mut h = HashMap::new();
        h.insert("n".to_string(), n.to_string());
        if let Some(t) = to {
            h.insert("cid".to_string(), t.to_string());
        }
        Frame::Message(MessagePayload { headers: Some(h), message: Bytes::from(format!("item{n}")) })
    };
    let do_send = |agg: &mut Agg, sinks: &Vec<MockSink>, sent: &mut Vec<(usize, Frame)>, next: &mut usize, to: u16, cx: &mut Context<'_>| -> Result<(), Outcome> {
        match agg.poll_ready(cx) {
            Poll::Pending => Ok(()),
            Poll::Ready(Err(e)) => Err(Outcome::fail("aggregate-error", format!("poll_ready of the aggregate sink returned Err({e}) although only a member failed"))),
            Poll::Ready(Ok(())) => {
                let (target, frame) = if case.router {
                    if sinks.is_empty() {
                        return Ok(());
                    }
                    let t = pick_idx(to, sinks.len());
                    (t, mk(*next, Some(t)))
                } else {
                    (usize::MAX, mk(*next, None))
                };
                *next += 1;
                match agg.start_send(frame.clone()) {
                    Ok(()) => {
                        sent.push((target, frame));
                        Ok(())
                    }
                    Err(e) => {
                        // Router may refuse a frame for a peer that is already gone
                        if case.router && sinks[target].failed() {
                            Ok(())
                        } else {
                            Err(Outcome::fail("aggregate-error", format!("start_send of the aggregate sink returned Err({e}) for a deliverable item")))
                        }
                    }
                }
            }
        }
    };
    for op in &case.ops {
        match op {
            DOp::Send { to } => do_send(&mut agg, &sinks, &mut sent, &mut next, *to, &mut cx)?,
            DOp::Flush => {
                if let Poll::Ready(Err(e)) = agg.poll_flush(&mut cx) {
                    return Err(Outcome::fail("aggregate-error", format!("poll_flush of the aggregate sink returned Err({e}) although only a member failed")));
                }
            }
            DOp::Block { i } => {
                if !sinks.is_empty() {
                    sinks[pick_idx(*i, sinks.len())].block(true)
                }
            }
            DOp::Unblock { i } => {
                if !sinks.is_empty() {
                    sinks[pick_idx(*i, sinks.len())].block(false)
                }
            }
            DOp::Fail { i, at } => {
                if !sinks.is_empty() {
                    let j = pick_idx(*i, sinks.len());
                    if !sinks[j].failed() {
                        let at = 1 + (*at % 3);
                        sinks[j].set_fail(at);
                        facts.fail_at[at as usize] = true;
                        if sinks.len() > 1 {
                            if j == 0 {
                                facts.fail_first = true
                            } else if j == sinks.len() - 1 {
                                facts.fail_last = true
                            } else {
                                facts.fail_middle = true
                            }
                        }
                    }
                }
            }
            DOp::Insert { cap } => {
                if sinks.len() < 6 {
                    let s = MockSink::new(CAPS[*cap as usize % 3]);
                    agg.insert(sinks.len(), s.clone());
                    joined_at.push(sent.len());
                    sinks.push(s);
                }
            }
        }
    }
    // closing: everybody accepts data; one more item to all / to each; flush must complete
    for s in &sinks {
        s.block(false);
    }
    if case.router {
        for t in 0..sinks.len() {
            let sel = ((t * 65536 + 65535) / sinks.len().max(1)).min(65535) as u16;
            do_send(&mut agg, &sinks, &mut sent, &mut next, sel, &mut cx)?;
        }
    } else {
        do_send(&mut agg, &sinks, &mut sent, &mut next, 0, &mut cx)?;
    }
    match agg.poll_flush(&mut cx) {
        Poll::Ready(Ok(())) => {}
        Poll::Ready(Err(e)) => return Err(Outcome::fail("aggregate-error", format!("final poll_flush returned Err({e})"))),
        Poll::Pending => return Err(Outcome::fail("flush-pending-with-all-unblocked", "final poll_flush returned Pending although every member accepts data")),
    }
    facts.faults_observed = sinks.iter().filter(|s| s.observed_fail()).count();
    facts.healthy = sinks.iter().filter(|s| !s.failed()).count();
    facts.pendings = sinks.iter().map(|s| s.pendings()).sum();
    for (i, s) in sinks.iter().enumerate() {
        if s.failed() {
            continue;
        }
        let want: Vec<Frame> = if case.router {
            sent.iter()
                .filter(|(t, _)| *t == i)
                .map(|(_, f)| {
                    let Frame::Message(p) = f else { unreachable!() };
                    let mut h = p.headers.clone().unwrap();
                    h.remove("cid");
                    Frame::Message(MessagePayload { headers: Some(h), message: p.message.clone() })
                })
                .collect()
        } else {
            sent[joined_at[i]..].iter().map(|(_, f)| f.clone()).collect()
        };
        let got = s.wire();
        if !s.buf().is_empty() {
            return Err(Outcome::fail("healthy-member-unflushed", format!("member {i} has {} unflushed item(s) after a completed flush", s.buf().len())));
        }
        facts.delivered += got.len();
        if got != want {
            let g: Vec<String> = got.iter().map(label).collect();
            let w: Vec<String> = want.iter().map(label).collect();
            return Err(Outcome::fail("healthy-member-delivery", format!("healthy member {i}: received {g:?}, expected {w:?}")));
        }
    }
    Ok(())
}

fn label(f: &Frame) -> String {
    match f {
        Frame::Message(p) => String::from_utf8_lossy(&p.message).into_owned(),
        o => format!("{o:?}"),
    }
}

pub fn case_strategy(router: bool) -> BoxedStrategy<DCase> {
    let sel = || any::<u16>();
    let op = prop_oneof![
        10 => sel().prop_map(|to| DOp::Send { to }),
        3 => Just(DOp::Flush),
        3 => sel().prop_map(|i| DOp::Block { i }),
        3 => sel().prop_map(|i| DOp::Unblock { i }),
        3 => (sel(), 0u8..3).prop_map(|(i, at)| DOp::Fail { i, at }),
        1 => (0u8..3).prop_map(|cap| DOp::Insert { cap }),
    ];
    (proptest::collection::vec(0u8..3, 0..5), proptest::collection::vec(op, 0..30))
        .prop_map(move |(caps, ops)| DCase { router, caps, ops })
        .boxed()
}
