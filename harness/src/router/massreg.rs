//! C17 / C09 — "any number of peers queueing up": when a stalled topic gets going again, its
//! router finds a registration queue of arbitrary length (every waiting `handle_stream` task
//! owns a sender, and every sender has a guaranteed slot). Draining it must be ordinary
//! bounded work. A router that, say, recurses once per queued registration overflows the
//! stack of the server's worker thread, which aborts the *process* and with it every topic.
//!
//! The scenario therefore runs in a child process, on a thread with a tokio worker's stack
//! size; a child that dies is the violation.
use super::mock::*;
use crate::core::{Ctx, Outcome};
use bytes::Bytes;
use proptest::prelude::*;
use selium_protocol::{Frame, MessagePayload};
use selium_server::topic::{pubsub, reqrep};
use serde::{Deserialize, Serialize};
use std::collections::HashMap;
use std::time::Duration;

#[derive(Debug, Clone, Serialize, Deserialize, Hash, PartialEq, Eq)]
pub struct Case {
    /// 0 pub/sub subscribers, 1 pub/sub publishers, 2 request/reply requestors
    pub router: u8,
    /// number of queued registrations
    pub n: u32,
}

/// tokio's default worker stack
const STACK: usize = 2 * 1024 * 1024;

fn scenario(c: &Case) -> Result<(), String> {
    let n = c.n as usize;
    let err = |e: ExecErr| match e {
        ExecErr::Panic { msg, .. } => format!("router panicked: {msg}"),
        ExecErr::Livelock => "router kept waking itself".to_string(),
    };
    match c.router % 3 {
        0 | 1 => {
            let (topic, tx) = pubsub::Topic::<Frame, String>::pair();
            let mut ex = Exec::new(topic);
            // the spin rule of C09: work x peers (a router may look at every peer once per registration)
            ex.inner_limit = 16 * (n as u64 + 2) * (n as u64 + 4) + 50_000;
            // the router has been stuck: nothing was polled while the registrations piled up
            let mut senders = vec![];
            let mut sinks = vec![];
            let mut streams = vec![];
            for _ in 0..n {
                let mut t = tx.clone();
                if c.router % 3 == 0 {
                    let s = MockSink::new(1000);
                    t.try_send(pubsub::Socket::Sink(Box::pin(s.clone()))).map_err(|e| format!("queueing a registration: {e}"))?;
                    sinks.push(s);
                } else {
                    let s = MockStream::default();
                    t.try_send(pubsub::Socket::Stream(Box::pin(s.clone()))).map_err(|e| format!("queueing a registration: {e}"))?;
                    streams.push(s);
                }
                senders.push(t);
            }
            // one peer of the other kind so that service can be observed
            let mut t = tx.clone();
            let probe_sink = MockSink::new(1000);
            let probe_stream = MockStream::default();
            if c.router % 3 == 0 {
                t.try_send(pubsub::Socket::Stream(Box::pin(probe_stream.clone()))).map_err(|e| e.to_string())?;
            } else {
                t.try_send(pubsub::Socket::Sink(Box::pin(probe_sink.clone()))).map_err(|e| e.to_string())?;
            }
            ex.run().map_err(err)?;
            let msg = |k: usize| Frame::Message(MessagePayload { headers: None, message: Bytes::from(format!("after-the-stall-{k}")) });
            if c.router % 3 == 0 {
                probe_stream.push(msg(0));
                ex.run().map_err(err)?;
                let served = sinks.iter().filter(|s| s.wire().len() == 1).count();
                if served != n {
                    return Err(format!("{n} subscribers were queued; after the queue was drained only {served} of them receive a published message"));
                }
            } else {
                for (k, s) in streams.iter().enumerate().step_by((n / 16).max(1)) {
                    s.push(msg(k));
                }
                ex.run().map_err(err)?;
                let want = streams.iter().step_by((n / 16).max(1)).count();
                if probe_sink.wire().len() != want {
                    return Err(format!("{n} publishers were queued; {want} of them published one message each, the subscriber received {}", probe_sink.wire().len()));
                }
            }
            drop(senders);
            Ok(())
        }
        _ => {
            let (topic, tx) = reqrep::Topic::<String>::pair();
            let mut ex = Exec::new(topic);
            // the spin rule of C09: work x peers (a router may look at every peer once per registration)
            ex.inner_limit = 16 * (n as u64 + 2) * (n as u64 + 4) + 50_000;
            let rep_si = MockSink::new(1000);
            let rep_st = MockStream::default();
            let mut t0 = tx.clone();
            t0.try_send(reqrep::Socket::Server((Box::pin(rep_si.clone()), Box::pin(rep_st.clone())))).map_err(|e| e.to_string())?;
            let mut senders = vec![];
            let mut reqs = vec![];
            for _ in 0..n {
                let mut t = tx.clone();
                let (si, st) = (MockSink::new(1000), MockStream::default());
                t.try_send(reqrep::Socket::Client((Box::pin(si.clone()), Box::pin(st.clone())))).map_err(|e| format!("queueing a registration: {e}"))?;
                reqs.push((si, st));
                senders.push(t);
            }
            ex.run().map_err(err)?;
            let mut want = 0;
            for (k, (_, st)) in reqs.iter().enumerate().step_by((n / 16).max(1)) {
                let mut h = HashMap::new();
                h.insert("req_id".to_string(), "0".to_string());
                st.push(Frame::Message(MessagePayload { headers: Some(h), message: Bytes::from(format!("q{k}:0:")) }));
                want += 1;
                ex.run().map_err(err)?;
            }
            if rep_si.wire().len() != want {
                return Err(format!("{n} requestors were queued; {want} of them sent one request each, the replier received {}", rep_si.wire().len()));
            }
            drop(senders);
            Ok(())
        }
    }
}

/// child entry: `verif <ID> --massreg-child '<case json>'`
pub fn child_main(case_json: &str) -> i32 {
    let c: Case = match serde_json::from_str(case_json) {
        Ok(c) => c,
        Err(e) => {
            eprintln!("massreg child: bad case: {e}");
            return 2;
        }
    };
    let h = std::thread::Builder::new().stack_size(STACK).spawn(move || scenario(&c));
    match h.map(|h| h.join()) {
        Ok(Ok(Ok(()))) => {
            println!("MASSREG-OK");
            0
        }
        Ok(Ok(Err(e))) => {
            println!("MASSREG-FAIL {e}");
            1
        }
        Ok(Err(_)) => {
            println!("MASSREG-FAIL the scenario thread panicked");
            1
        }
        Err(e) => {
            eprintln!("massreg child: cannot start thread: {e}");
            2
        }
    }
}

pub fn eval(id: &str, c: &Case) -> Outcome {
    crate::core::watchdog::tick();
    let exe = match std::env::current_exe() {
        Ok(e) => e,
        Err(e) => return Outcome::Inconclusive(format!("current_exe: {e}")),
    };
    let js = serde_json::to_string(c).unwrap();
    let child = std::process::Command::new(exe).args([id, "--massreg-child", &js]).stdout(std::process::Stdio::piped()).stderr(std::process::Stdio::piped()).spawn();
    let mut child = match child {
        Ok(c) => c,
        Err(e) => return Outcome::Inconclusive(format!("cannot spawn the child: {e}")),
    };
    let t0 = std::time::Instant::now();
    let status = loop {
        crate::core::watchdog::tick();
        match child.try_wait() {
            Ok(Some(s)) => break s,
            Ok(None) => {
                if t0.elapsed() > Duration::from_secs(300) {
                    let _ = child.kill();
                    let _ = child.wait();
                    return Outcome::Inconclusive("the child exceeded 300 s".into());
                }
                std::thread::sleep(Duration::from_millis(20));
            }
            Err(e) => return Outcome::Inconclusive(format!("waiting for the child: {e}")),
        }
    };
    let mut out = String::new();
    let mut errs = String::new();
    use std::io::Read;
    if let Some(mut o) = child.stdout.take() { let _ = o.read_to_string(&mut out); }
    if let Some(mut o) = child.stderr.take() { let _ = o.read_to_string(&mut errs); }
    let what = ["subscriber", "publisher", "requestor"][(c.router % 3) as usize];
    match status.code() {
        Some(0) if out.contains("MASSREG-OK") => Outcome::pass(vec![["queued-subscribers", "queued-publishers", "queued-requestors"][(c.router % 3) as usize], if c.n > 10_000 { "more-than-10000-queued" } else { "up-to-10000-queued" }], c.n > 101),
        Some(1) => Outcome::fail("queued-registrations-not-served", out.lines().find(|l| l.starts_with("MASSREG-FAIL")).unwrap_or("").trim_start_matches("MASSREG-FAIL ").to_string()),
        Some(2) => Outcome::Inconclusive(format!("child: {errs}")),
        other => {
            let tail: String = errs.lines().rev().take(3).collect::<Vec<_>>().into_iter().rev().collect::<Vec<_>>().join(" | ");
            Outcome::fail(
                "process-died-draining-registration-queue",
                format!("a router that had {} {what} registrations queued (as after a stall) was polled on a thread with a tokio worker's 2 MiB stack: the process died (status {other:?}, {status}); stderr: {tail}", c.n),
            )
        }
    }
}

pub fn strategy() -> BoxedStrategy<Case> {
    (0u8..3, prop_oneof![2 => 1u32..300, 2 => 300u32..5_000, 3 => 5_000u32..20_000, 2 => 20_000u32..40_000]).prop_map(|(router, n)| Case { router, n }).boxed()
}

pub fn run(ctx: &mut Ctx, id: &'static str) {
    let saved = (ctx.workers, ctx.shrink_iters);
    ctx.shrink_iters = 12;
    ctx.workers = ctx.workers.min(8);
    ctx.search("registration-queue-drain", strategy, ctx.tier.pick(24, 300), true, move |c: &Case| eval(id, c));
    ctx.workers = saved.0;
    ctx.shrink_iters = saved.1;
}

pub fn replay(id: &'static str, case: &serde_json::Value) -> i32 {
    crate::core::replay_case::<Case>(id, case, 1, |c| eval(id, c))
}
