pub mod mock;
pub mod closepoll;
pub mod massreg;
pub mod direct;
pub mod ps;
pub mod rr;
pub mod props;
