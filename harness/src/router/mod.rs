pub mod mock;
pub mod ps;
pub mod props;
