//! C16, "mid-delivery": the registration channel is closed *while the router is inside a
//! poll* and a publisher still has a long backlog ready. The router must notice the close
//! within a bounded number of further messages, hand over and flush what it took, and
//! finish.
use super::mock::*;
use crate::core::Outcome;
use futures::channel::mpsc::Sender;
use futures::Stream;
use proptest::prelude::*;
use selium_protocol::Frame;
use selium_server::topic::pubsub;
use selium_std::errors::SeliumError;
use serde::{Deserialize, Serialize};
use std::pin::Pin;
use std::sync::{Arc, Mutex};
use std::task::{Context, Poll};

/// how many further messages a router may take after the close before it must have
/// noticed it (generous: allows read-ahead queues and batched hand-over)
pub const NOTICE_BOUND: usize = 256;

#[derive(Debug, Clone, Serialize, Deserialize, Hash, PartialEq, Eq)]
pub struct Case {
    pub backlog: u16,
    /// the close happens inside the poll_next call that yields this item
    pub close_at: u16,
    pub sub_caps: Vec<u8>,
    /// items already delivered in earlier polls before the big backlog is queued
    pub warmup: u8,
}

struct ClosingStream {
    inner: MockStream,
    close_at: usize,
    tx: Arc<Mutex<Option<Sender<pubsub::Socket<Frame, String>>>>>,
    pulled_at_close: Arc<Mutex<Option<usize>>>,
}
impl Stream for ClosingStream {
    type Item = Result<Frame, SeliumError>;
    fn poll_next(mut self: Pin<&mut Self>, cx: &mut Context<'_>) -> Poll<Option<Self::Item>> {
        let n = self.inner.n_yielded();
        if n == self.close_at {
            if let Some(mut tx) = self.tx.lock().unwrap().take() {
                // what Server::shutdown does, from "another thread", while the router is busy
                tx.close_channel();
                *self.pulled_at_close.lock().unwrap() = Some(n);
            }
        }
        Pin::new(&mut self.inner).poll_next(cx)
    }
}

pub fn run_case(c: &Case) -> Outcome {
    crate::core::watchdog::tick();
    let (topic, mut tx) = pubsub::Topic::<Frame, String>::pair();
    let mut ex = Exec::new(topic);
    let backlog = 300 + (c.backlog as usize % 2700);
    let warmup = (c.warmup % 8) as usize;
    let close_at = warmup + (c.close_at as usize % (backlog / 2));
    ex.inner_limit = 64 * (backlog as u64 + 100);
    let mut subs = vec![];
    for cap in c.sub_caps.iter().take(3) {
        let s = MockSink::new([1usize, 2, 4, 1000][*cap as usize % 4]);
        if tx.try_send(pubsub::Socket::Sink(Box::pin(s.clone()))).is_err() {
            return Outcome::Inconclusive("registration refused".into());
        }
        subs.push(s);
    }
    let inner = MockStream::default();
    let holder = Arc::new(Mutex::new(None));
    let pulled_at_close = Arc::new(Mutex::new(None));
    let st = ClosingStream { inner: inner.clone(), close_at, tx: holder.clone(), pulled_at_close: pulled_at_close.clone() };
    if tx.try_send(pubsub::Socket::Stream(Box::pin(st))).is_err() {
        return Outcome::Inconclusive("registration refused".into());
    }
    macro_rules! step {
        ($e:expr) => {
            if let Err(e) = $e {
                return match e {
                    ExecErr::Panic { msg, spin: true } => Outcome::fail("spin", msg),
                    ExecErr::Panic { msg, .. } => Outcome::fail(format!("panic:{msg}"), "router panicked"),
                    ExecErr::Livelock => Outcome::fail("livelock", "router kept waking itself"),
                };
            }
        };
    }
    for _ in 0..4 {
        step!(ex.poll_once());
    }
    for n in 0..warmup {
        inner.push(super::ps::make_frame(3, 0, n));
    }
    step!(ex.run());
    // the backlog becomes ready at once; the close fires inside the poll that drains it
    for n in warmup..warmup + backlog {
        inner.push(super::ps::make_frame(3, 0, n));
    }
    *holder.lock().unwrap() = Some(tx);
    step!(ex.run());
    let Some(at) = *pulled_at_close.lock().unwrap() else {
        return Outcome::Inconclusive("the close point was never reached".into());
    };
    if !ex.done {
        return Outcome::fail("no-finish-after-close", format!("the channel was closed during a poll (after {at} messages); every sink accepts data and no wake-up is pending, yet the router has not finished"));
    }
    let pulled = inner.n_yielded();
    if pulled > at + NOTICE_BOUND {
        return Outcome::fail(
            "close-not-noticed-mid-delivery",
            format!("the channel was closed when {at} messages had been taken; the router went on to take {} more (bound {NOTICE_BOUND}) before it noticed", pulled - at),
        );
    }
    for (si, s) in subs.iter().enumerate() {
        if !s.buf().is_empty() {
            return Outcome::fail("unflushed-at-finish", format!("subscriber {si}: router finished with {} unflushed frame(s)", s.buf().len()));
        }
        let got: Vec<usize> = s.wire().iter().filter_map(super::ps::ident).map(|(_, n)| n).collect();
        if got != (0..pulled).collect::<Vec<_>>() {
            return Outcome::fail("lost-at-finish", format!("subscriber {si}: router finished having taken {pulled} messages but delivered {} (first gap at {:?})", got.len(), got.iter().enumerate().find(|(i, n)| *i != **n)));
        }
    }
    Outcome::pass(vec!["closed-during-poll-with-backlog"], true)
}

pub fn strategy() -> BoxedStrategy<Case> {
    (any::<u16>(), any::<u16>(), proptest::collection::vec(0u8..4, 0..3), 0u8..8).prop_map(|(backlog, close_at, sub_caps, warmup)| Case { backlog, close_at, sub_caps, warmup }).boxed()
}


// ------------------------------------------------------------------ request/reply flavour
use selium_server::topic::reqrep;

struct ClosingReqStream {
    inner: MockStream,
    close_at: usize,
    tx: Arc<Mutex<Option<Sender<reqrep::Socket<String>>>>>,
    pulled_at_close: Arc<Mutex<Option<usize>>>,
}
impl Stream for ClosingReqStream {
    type Item = Result<Frame, SeliumError>;
    fn poll_next(mut self: Pin<&mut Self>, cx: &mut Context<'_>) -> Poll<Option<Self::Item>> {
        let n = self.inner.n_yielded();
        if n == self.close_at {
            if let Some(mut tx) = self.tx.lock().unwrap().take() {
                tx.close_channel();
                *self.pulled_at_close.lock().unwrap() = Some(n);
            }
        }
        Pin::new(&mut self.inner).poll_next(cx)
    }
}

/// A requestor has a long backlog of requests ready, the replier accepts everything; the
/// channel is closed inside the poll that forwards them. "Finishes in bounded time from
/// mid-delivery": the router must notice within NOTICE_BOUND further requests and finish.
pub fn run_case_rr(c: &Case) -> Outcome {
    crate::core::watchdog::tick();
    let (topic, mut tx) = reqrep::Topic::<String>::pair();
    let mut ex = Exec::new(topic);
    let backlog = 300 + (c.backlog as usize % 2700);
    let warmup = (c.warmup % 8) as usize;
    let close_at = warmup + (c.close_at as usize % (backlog / 2));
    ex.inner_limit = 64 * (backlog as u64 + 100);
    let rep_si = MockSink::new(1000);
    let rep_st = MockStream::default();
    let with_replier = c.sub_caps.first().map_or(true, |c| c % 4 != 3);
    if with_replier && tx.try_send(reqrep::Socket::Server((Box::pin(rep_si.clone()), Box::pin(rep_st.clone())))).is_err() {
        return Outcome::Inconclusive("registration refused".into());
    }
    let req_si = MockSink::new(1000);
    let inner = MockStream::default();
    let holder = Arc::new(Mutex::new(None));
    let pulled_at_close = Arc::new(Mutex::new(None));
    let st = ClosingReqStream { inner: inner.clone(), close_at, tx: holder.clone(), pulled_at_close: pulled_at_close.clone() };
    if tx.try_send(reqrep::Socket::Client((Box::pin(req_si.clone()), Box::pin(st)))).is_err() {
        return Outcome::Inconclusive("registration refused".into());
    }
    macro_rules! step {
        ($e:expr) => {
            if let Err(e) = $e {
                return match e {
                    ExecErr::Panic { msg, spin: true } => Outcome::fail("spin", msg),
                    ExecErr::Panic { msg, .. } => Outcome::fail(format!("panic:{msg}"), "router panicked"),
                    ExecErr::Livelock => Outcome::fail("livelock", "router kept waking itself"),
                };
            }
        };
    }
    let mk = |n: usize| {
        let mut h = std::collections::HashMap::new();
        h.insert("req_id".to_string(), n.to_string());
        Frame::Message(selium_protocol::MessagePayload { headers: Some(h), message: format!("q0:{n}:").into_bytes().into() })
    };
    for _ in 0..4 {
        step!(ex.poll_once());
    }
    for n in 0..warmup {
        inner.push(mk(n));
    }
    step!(ex.run());
    for n in warmup..warmup + backlog {
        inner.push(mk(n));
    }
    *holder.lock().unwrap() = Some(tx);
    step!(ex.run());
    let Some(at) = *pulled_at_close.lock().unwrap() else {
        return Outcome::Inconclusive("the close point was never reached".into());
    };
    if !ex.done {
        return Outcome::fail("no-finish-after-close", format!("the channel was closed during a poll (after {at} requests); every sink accepts data and no wake-up is pending, yet the request/reply router has not finished"));
    }
    let pulled = inner.n_yielded();
    if pulled > at + NOTICE_BOUND {
        return Outcome::fail(
            "close-not-noticed-mid-delivery",
            format!("the channel was closed when {at} requests had been taken; the request/reply router went on to take {} more (bound {NOTICE_BOUND}) before it noticed", pulled - at),
        );
    }
    Outcome::pass(vec![if with_replier { "rr-closed-during-poll-with-backlog" } else { "rr-closed-during-poll-no-replier" }], true)
}
