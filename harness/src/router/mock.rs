//! World B: harness-owned peers and executor for the real router futures.
//!
//! `MockStream` plays the inbound half of a peer (publisher / requestor / replier),
//! `MockSink` the outbound half (subscriber / requestor / replier) and models what a
//! `FramedWrite` over a flow-controlled QUIC stream does: `start_send` only buffers,
//! bytes reach the peer ("wire") inside `poll_flush`, or inside `poll_ready` once the
//! buffer is at its back-pressure boundary; while *blocked* those return `Pending`.
use futures::{Future, Sink, Stream};
use selium_protocol::Frame;
use selium_std::errors::SeliumError;
use std::cell::Cell;
use std::collections::VecDeque;
use std::pin::Pin;
use std::sync::atomic::{AtomicBool, Ordering};
use std::sync::{Arc, Mutex};
use std::task::{Context, Poll, Wake, Waker};

pub const SPIN_MARKER: &str = "VERIF-SPIN: unbounded work inside one poll";

thread_local! {
    static INNER: Cell<u64> = Cell::new(0);
    static LIMIT: Cell<u64> = Cell::new(50_000);
    static MAX_SEEN: Cell<u64> = Cell::new(0);
}

fn tick() {
    INNER.with(|c| {
        let v = c.get() + 1;
        c.set(v);
        if v > LIMIT.with(|l| l.get()) {
            c.set(0);
            panic!("{}", SPIN_MARKER);
        }
    })
}
pub fn reset_inner(limit: u64) {
    INNER.with(|c| {
        MAX_SEEN.with(|m| m.set(m.get().max(c.get())));
        c.set(0)
    });
    LIMIT.with(|l| l.set(limit));
}
pub fn take_max_inner() -> u64 {
    INNER.with(|c| MAX_SEEN.with(|m| m.set(m.get().max(c.get()))));
    MAX_SEEN.with(|m| m.replace(0))
}

#[derive(Default)]
pub struct StreamSt {
    q: VecDeque<Result<Frame, SeliumError>>,
    pub ended: bool,
    waker: Option<Waker>,
    /// frames the router actually pulled, in order
    pub yielded: Vec<Frame>,
    pub errs_yielded: usize,
    pub none_seen: bool,
    pub pendings: usize,
}

#[derive(Clone, Default)]
pub struct MockStream(pub Arc<Mutex<StreamSt>>);

impl MockStream {
    pub fn push(&self, f: Frame) {
        let mut s = self.0.lock().unwrap();
        assert!(!s.ended, "harness bug: push after end");
        s.q.push_back(Ok(f));
        if let Some(w) = s.waker.take() {
            w.wake()
        }
    }
    pub fn push_err(&self) {
        let mut s = self.0.lock().unwrap();
        assert!(!s.ended, "harness bug: push after end");
        s.q.push_back(Err(SeliumError::Protocol(selium_std::errors::ProtocolError::UnknownMessageType(0xEE))));
        if let Some(w) = s.waker.take() {
            w.wake()
        }
    }
    pub fn end(&self) {
        let mut s = self.0.lock().unwrap();
        s.ended = true;
        if let Some(w) = s.waker.take() {
            w.wake()
        }
    }
    pub fn ended(&self) -> bool {
        self.0.lock().unwrap().ended
    }
    pub fn n_yielded(&self) -> usize {
        self.0.lock().unwrap().yielded.len()
    }
    pub fn yielded(&self) -> Vec<Frame> {
        self.0.lock().unwrap().yielded.clone()
    }
    pub fn queued(&self) -> usize {
        self.0.lock().unwrap().q.len()
    }
    pub fn pendings(&self) -> usize {
        self.0.lock().unwrap().pendings
    }
}

impl Stream for MockStream {
    type Item = Result<Frame, SeliumError>;
    fn poll_next(self: Pin<&mut Self>, cx: &mut Context<'_>) -> Poll<Option<Self::Item>> {
        tick();
        let mut s = self.0.lock().unwrap();
        if let Some(x) = s.q.pop_front() {
            match &x {
                Ok(f) => s.yielded.push(f.clone()),
                Err(_) => s.errs_yielded += 1,
            }
            return Poll::Ready(Some(x));
        }
        if s.ended {
            s.none_seen = true;
            return Poll::Ready(None);
        }
        s.pendings += 1;
        s.waker = Some(cx.waker().clone());
        Poll::Pending
    }
}

pub const FAIL_READY: u8 = 1;
pub const FAIL_SEND: u8 = 2;
pub const FAIL_FLUSH: u8 = 3;

#[derive(Default)]
pub struct SinkSt {
    pub buf: Vec<Frame>,
    pub wire: Vec<Frame>,
    pub blocked: bool,
    pub cap: usize,
    pub closed: bool,
    waker: Option<Waker>,
    pub pendings: usize,
    /// 0 = healthy; FAIL_* = that operation returns Err from now on
    pub fail: u8,
    /// the router was actually handed an Err by this sink
    pub observed_fail: bool,
    pub sends: usize,
    /// start_send refused because the frame exceeds the wire limit (like FramedWrite)
    pub oversize_rejected: usize,
    /// calls after close / after an error was returned (contract abuse by the router)
    pub used_after_close: usize,
}

#[derive(Clone, Default)]
pub struct MockSink(pub Arc<Mutex<SinkSt>>);

impl MockSink {
    pub fn new(cap: usize) -> Self {
        let s = MockSink::default();
        s.0.lock().unwrap().cap = cap.max(1);
        s
    }
    /// like `new`, but `cap == 0` is taken literally: while blocked the sink is not ready
    /// even for its first frame
    pub fn new_exact(cap: usize) -> Self {
        let s = MockSink::default();
        s.0.lock().unwrap().cap = cap;
        s
    }
    pub fn block(&self, b: bool) {
        let mut s = self.0.lock().unwrap();
        s.blocked = b;
        if !b {
            if let Some(w) = s.waker.take() {
                w.wake()
            }
        }
    }
    pub fn set_fail(&self, at: u8) {
        let mut s = self.0.lock().unwrap();
        if s.fail == 0 {
            s.fail = at;
        }
        // a broken connection wakes whoever waits on it
        if let Some(w) = s.waker.take() {
            w.wake()
        }
    }
    pub fn failed(&self) -> bool {
        self.0.lock().unwrap().fail != 0
    }
    pub fn observed_fail(&self) -> bool {
        self.0.lock().unwrap().observed_fail
    }
    pub fn blocked(&self) -> bool {
        self.0.lock().unwrap().blocked
    }
    pub fn wire(&self) -> Vec<Frame> {
        self.0.lock().unwrap().wire.clone()
    }
    pub fn buf(&self) -> Vec<Frame> {
        self.0.lock().unwrap().buf.clone()
    }
    pub fn closed(&self) -> bool {
        self.0.lock().unwrap().closed
    }
    pub fn pendings(&self) -> usize {
        self.0.lock().unwrap().pendings
    }
    pub fn oversize_rejected(&self) -> usize {
        self.0.lock().unwrap().oversize_rejected
    }
}

fn too_large(f: &Frame) -> bool {
    // Only frames that can possibly be near the limit are run through the real encoder
    let approx = match f {
        Frame::Message(p) => p.message.len() + p.headers.as_ref().map_or(0, |h| h.iter().map(|(k, v)| k.len() + v.len() + 16).sum()),
        Frame::BatchMessage(b) => b.len(),
        _ => 0,
    };
    if approx < 900_000 {
        return false;
    }
    use tokio_util::codec::Encoder;
    let mut codec = selium_protocol::MessageCodec;
    let mut dst = bytes::BytesMut::new();
    codec.encode(f.clone(), &mut dst).is_err()
}

impl Sink<Frame> for MockSink {
    type Error = String;
    fn poll_ready(self: Pin<&mut Self>, cx: &mut Context<'_>) -> Poll<Result<(), String>> {
        tick();
        let mut s = self.0.lock().unwrap();
        if s.closed {
            s.used_after_close += 1;
        }
        if s.fail == FAIL_READY {
            s.observed_fail = true;
            return Poll::Ready(Err("mock: poll_ready failed".into()));
        }
        if s.buf.len() >= s.cap {
            if s.blocked {
                s.pendings += 1;
                s.waker = Some(cx.waker().clone());
                return Poll::Pending;
            }
            let b = std::mem::take(&mut s.buf);
            s.wire.extend(b);
        }
        Poll::Ready(Ok(()))
    }
    fn start_send(self: Pin<&mut Self>, item: Frame) -> Result<(), String> {
        tick();
        let mut s = self.0.lock().unwrap();
        if s.closed {
            s.used_after_close += 1;
        }
        if s.fail == FAIL_SEND {
            s.observed_fail = true;
            return Err("mock: start_send failed".into());
        }
        if too_large(&item) {
            s.oversize_rejected += 1;
            return Err("mock: frame exceeds wire limit".into());
        }
        s.sends += 1;
        s.buf.push(item);
        Ok(())
    }
    fn poll_flush(self: Pin<&mut Self>, cx: &mut Context<'_>) -> Poll<Result<(), String>> {
        tick();
        let mut s = self.0.lock().unwrap();
        if s.fail == FAIL_FLUSH {
            s.observed_fail = true;
            return Poll::Ready(Err("mock: poll_flush failed".into()));
        }
        if s.buf.is_empty() {
            return Poll::Ready(Ok(()));
        }
        if s.blocked {
            s.pendings += 1;
            s.waker = Some(cx.waker().clone());
            return Poll::Pending;
        }
        let b = std::mem::take(&mut s.buf);
        s.wire.extend(b);
        Poll::Ready(Ok(()))
    }
    fn poll_close(mut self: Pin<&mut Self>, cx: &mut Context<'_>) -> Poll<Result<(), String>> {
        match self.as_mut().poll_flush(cx) {
            Poll::Ready(Ok(())) => {
                self.0.lock().unwrap().closed = true;
                Poll::Ready(Ok(()))
            }
            o => o,
        }
    }
}

struct Flag(AtomicBool);
impl Wake for Flag {
    fn wake(self: Arc<Self>) {
        self.0.store(true, Ordering::SeqCst)
    }
    fn wake_by_ref(self: &Arc<Self>) {
        self.0.store(true, Ordering::SeqCst)
    }
}

#[derive(Debug, Clone, PartialEq)]
pub enum ExecErr {
    /// the router panicked (normalised message); `spin` if it was our inner-poll bound
    Panic { msg: String, spin: bool },
    /// woke itself more than the bound without external input
    Livelock,
}

pub struct Exec {
    fut: Pin<Box<dyn Future<Output = ()>>>,
    flag: Arc<Flag>,
    pub done: bool,
    pub dead: Option<ExecErr>,
    pub polls: usize,
    pub pendings: usize,
    pub inner_limit: u64,
}

impl Exec {
    pub fn new(f: impl Future<Output = ()> + 'static) -> Self {
        Exec {
            fut: Box::pin(f),
            flag: Arc::new(Flag(AtomicBool::new(true))),
            done: false,
            dead: None,
            polls: 0,
            pendings: 0,
            inner_limit: 50_000,
        }
    }
    pub fn woken(&self) -> bool {
        self.flag.0.load(Ordering::SeqCst)
    }
    /// one poll, whether or not a wake-up is pending (a spurious poll is legal)
    pub fn poll_once(&mut self) -> Result<(), ExecErr> {
        if self.done {
            return Ok(());
        }
        if let Some(e) = &self.dead {
            return Err(e.clone());
        }
        reset_inner(self.inner_limit);
        self.flag.0.store(false, Ordering::SeqCst);
        let w = Waker::from(self.flag.clone());
        let mut cx = Context::from_waker(&w);
        self.polls += 1;
        let fut = &mut self.fut;
        match crate::core::catch(|| fut.as_mut().poll(&mut cx)) {
            Ok(Poll::Ready(())) => {
                self.done = true;
                Ok(())
            }
            Ok(Poll::Pending) => {
                self.pendings += 1;
                Ok(())
            }
            Err(p) => {
                let spin = p.contains("VERIF-SPIN");
                let e = ExecErr::Panic { msg: crate::core::panics::normalise(&p), spin };
                self.dead = Some(e.clone());
                Err(e)
            }
        }
    }
    /// what a wake-driven executor does: poll while a wake-up is pending
    pub fn run(&mut self) -> Result<(), ExecErr> {
        let mut n = 0;
        while self.woken() && !self.done {
            self.poll_once()?;
            n += 1;
            if n > 20_000 {
                let e = ExecErr::Livelock;
                self.dead = Some(e.clone());
                return Err(e);
            }
        }
        Ok(())
    }
}
