//! Pub/sub router (`selium_server::topic::pubsub::Topic`) under the harness scheduler:
//! op alphabet, interpreter, reference oracle, generators.
use super::mock::*;
use crate::core::{pick_idx, Outcome};
use bytes::Bytes;
use proptest::prelude::*;
use selium_protocol::{Frame, MessagePayload};
use selium_server::topic::pubsub;
use serde::{Deserialize, Serialize};
use std::collections::HashMap;

pub const CAPS: [usize; 4] = [1, 2, 4, 1000];

#[derive(Debug, Clone, Serialize, Deserialize, Hash, PartialEq, Eq)]
pub enum PsOp {
    RegPub,
    RegSub { cap: u8 },
    /// a burst of registrations queued between two router steps (subscribers, every third
    /// one a publisher), far more than the usual handful
    RegBurst { n: u8 },
    Send { p: u16, k: u8 },
    PushErr { p: u16 },
    EndPub { p: u16 },
    Block { s: u16 },
    Unblock { s: u16 },
    Fail { s: u16, at: u8 },
    Run,
    Poll,
    Settle,
    Close,
}

#[derive(Debug, Clone, Serialize, Deserialize, Hash, PartialEq, Eq)]
pub struct PsCase {
    pub ops: Vec<PsOp>,
    /// closing phase: end every publisher (true) or leave them idle (false)
    pub end_all: bool,
    /// only wake-driven `Run` steps are used (no spurious polls): the C09 executor
    pub wake_only: bool,
    pub payload_seed: u16,
}

fn lcg(x: &mut u64) -> u64 {
    *x = x.wrapping_mul(6364136223846793005).wrapping_add(1442695040888963407);
    *x >> 33
}

/// The `n`-th frame of publisher `p`: unique, self-identifying, with generated headers
/// and payload bytes (a function of the case only).
pub fn make_frame(seed: u16, p: usize, n: usize) -> Frame {
    let mut x = (seed as u64) << 32 | (p as u64) << 16 | n as u64;
    let r = lcg(&mut x);
    let mut body = format!("p{p}:{n}:").into_bytes();
    let extra = (lcg(&mut x) % 24) as usize;
    for _ in 0..extra {
        body.push(lcg(&mut x) as u8);
    }
    if r % 5 == 4 {
        return Frame::BatchMessage(Bytes::from(body));
    }
    let headers = match r % 3 {
        0 => None,
        1 => Some(HashMap::new()),
        _ => {
            let mut h = HashMap::new();
            for i in 0..(1 + lcg(&mut x) % 3) {
                h.insert(format!("k{i}-{}", lcg(&mut x) % 7), format!("v{}é", lcg(&mut x) % 1000));
            }
            Some(h)
        }
    };
    Frame::Message(MessagePayload { headers, message: Bytes::from(body) })
}

pub fn ident(f: &Frame) -> Option<(usize, usize)> {
    let b: &[u8] = match f {
        Frame::Message(p) => &p.message,
        Frame::BatchMessage(b) => b,
        _ => return None,
    };
    let s = std::str::from_utf8(&b[..b.len().min(24)]).unwrap_or_else(|e| std::str::from_utf8(&b[..e.valid_up_to()]).unwrap());
    let s = s.strip_prefix('p')?;
    let (p, rest) = s.split_once(':')?;
    let (n, _) = rest.split_once(':')?;
    Some((p.parse().ok()?, n.parse().ok()?))
}

#[derive(Default, Debug, Clone)]
pub struct PsFacts {
    pub pubs: usize,
    pub subs: usize,
    pub sink_pendings: usize,
    pub subs_received: usize,
    pub pubs_yielded: usize,
    pub last_pub_end_flush_pending: bool,
    pub reg_between_sends: bool,
    pub blocked_ready_with_item: bool,
    pub faults_observed_with_healthy_sibling: usize,
    pub fault_at: [usize; 4],
    pub fault_pos_first: usize,
    pub fault_pos_middle: usize,
    pub fault_pos_last: usize,
    pub closed: bool,
    pub close_with_peers: bool,
    pub close_with_blocked_or_buffered: bool,
    pub close_after_socket: bool,
    pub router_pendings: usize,
    pub one_sided: bool,
    pub max_inner: u64,
    pub errs_pushed: usize,
    pub bursts: usize,
    pub stream_errs_yielded: usize,
}

struct Pub {
    st: MockStream,
    pushed: Vec<Frame>,
}
struct Sub {
    si: MockSink,
    mark: Option<Vec<usize>>,
}

fn exec_err(e: ExecErr) -> Outcome {
    match e {
        ExecErr::Panic { msg, spin: true } => Outcome::fail("spin", format!("router exceeded the inner-poll bound inside one poll: {msg}")),
        ExecErr::Panic { msg, .. } => Outcome::fail(format!("panic:{msg}"), "router panicked"),
        ExecErr::Livelock => Outcome::fail("livelock", "router kept waking itself (20000 polls) without external input"),
    }
}

/// Runs the case against the real router and checks every oracle clause.
/// Returns the outcome and the facts used for labelling.
pub fn run_case(case: &PsCase) -> (Outcome, PsFacts) {
    let mut facts = PsFacts::default();
    match run_inner(case, &mut facts) {
        Ok(()) => (Outcome::pass(vec![], false), facts),
        Err(o) => (o, facts),
    }
}

fn run_inner(case: &PsCase, facts: &mut PsFacts) -> Result<(), Outcome> {
    let (topic, mut tx) = pubsub::Topic::<Frame, String>::pair();
    let mut ex = Exec::new(topic);
    let mut pubs: Vec<Pub> = vec![];
    let mut subs: Vec<Sub> = vec![];
    let mut queued = 0usize;
    let mut closed = false;
    let mut total_pushed = 0usize;
    let mut sent_before = false;
    let mut sub_after_send = false;
    let mut last_was_reg = false;

    let limit = |work: usize, peers: usize| -> u64 { (16 * (work as u64 + 2) * (peers as u64 + 4)).max(50_000) };

    macro_rules! step {
        ($e:expr) => {{
            ex.inner_limit = limit(total_pushed, pubs.len() + subs.len());
            if let Err(e) = $e {
                facts.max_inner = take_max_inner();
                return Err(exec_err(e));
            }
        }};
    }

    let clean = |subs: &Vec<Sub>| subs.iter().all(|s| !s.si.blocked());
    let set_marks = |subs: &mut Vec<Sub>, pubs: &Vec<Pub>| {
        let marks: Vec<usize> = pubs.iter().map(|p| p.st.n_yielded()).collect();
        for s in subs.iter_mut() {
            if s.mark.is_none() {
                s.mark = Some(marks.clone());
            }
        }
    };

    for op in &case.ops {
        let mut this_is_reg = false;
        match op {
            PsOp::RegPub => {
                if !closed && pubs.len() < 3 {
                    let st = MockStream::default();
                    if tx.try_send(pubsub::Socket::Stream(Box::pin(st.clone()))).is_ok() {
                        pubs.push(Pub { st, pushed: vec![] });
                        queued += 1;
                        this_is_reg = true;
                    }
                }
            }
            PsOp::RegSub { cap } => {
                if !closed && subs.len() < 4 {
                    let si = MockSink::new(CAPS[(*cap as usize) % CAPS.len()]);
                    if tx.try_send(pubsub::Socket::Sink(Box::pin(si.clone()))).is_ok() {
                        subs.push(Sub { si, mark: None });
                        queued += 1;
                        this_is_reg = true;
                        if sent_before {
                            sub_after_send = true;
                        }
                    }
                }
            }
            PsOp::RegBurst { n } => {
                if !closed {
                    let n = 12 + (*n as usize % 36);
                    for i in 0..n {
                        if subs.len() + pubs.len() >= 90 {
                            break;
                        }
                        if i % 3 == 2 {
                            let st = MockStream::default();
                            if tx.try_send(pubsub::Socket::Stream(Box::pin(st.clone()))).is_ok() {
                                pubs.push(Pub { st, pushed: vec![] });
                                queued += 1;
                                this_is_reg = true;
                            }
                        } else {
                            let si = MockSink::new(CAPS[(i + n) % CAPS.len()]);
                            if tx.try_send(pubsub::Socket::Sink(Box::pin(si.clone()))).is_ok() {
                                subs.push(Sub { si, mark: None });
                                queued += 1;
                                this_is_reg = true;
                                if sent_before {
                                    sub_after_send = true;
                                }
                            }
                        }
                    }
                    facts.bursts += 1;
                }
            }
            PsOp::Send { p, k } => {
                if !pubs.is_empty() {
                    let pi = pick_idx(*p, pubs.len());
                    if !pubs[pi].st.ended() {
                        // k < 3: 1-3 messages; larger k: a long burst made ready at once
                        for _ in 0..(if *k < 3 { 1 + *k as usize } else { *k as usize }) {
                            let n = pubs[pi].pushed.len();
                            let f = make_frame(case.payload_seed, pi, n);
                            pubs[pi].pushed.push(f.clone());
                            pubs[pi].st.push(f);
                            total_pushed += 1;
                        }
                        sent_before = true;
                        if sub_after_send {
                            facts.reg_between_sends = true;
                        }
                    }
                }
            }
            PsOp::PushErr { p } => {
                if !pubs.is_empty() {
                    let pi = pick_idx(*p, pubs.len());
                    if !pubs[pi].st.ended() {
                        pubs[pi].st.push_err();
                        facts.errs_pushed += 1;
                    }
                }
            }
            PsOp::EndPub { p } => {
                if !pubs.is_empty() {
                    let pi = pick_idx(*p, pubs.len());
                    if !pubs[pi].st.ended() {
                        pubs[pi].st.end();
                        if pubs.iter().all(|p| p.st.ended()) && subs.iter().any(|s| s.si.blocked() && !s.si.buf().is_empty()) {
                            facts.last_pub_end_flush_pending = true;
                        }
                    }
                }
            }
            PsOp::Block { s } => {
                if !subs.is_empty() {
                    let si = pick_idx(*s, subs.len());
                    subs[si].si.block(true);
                }
            }
            PsOp::Unblock { s } => {
                if !subs.is_empty() {
                    let si = pick_idx(*s, subs.len());
                    subs[si].si.block(false);
                }
            }
            PsOp::Fail { s, at } => {
                if !subs.is_empty() {
                    let si = pick_idx(*s, subs.len());
                    if !subs[si].si.failed() {
                        let at = 1 + (*at % 3);
                        subs[si].si.set_fail(at);
                        facts.fault_at[at as usize] += 1;
                        if subs.len() > 1 {
                            if si == 0 {
                                facts.fault_pos_first += 1
                            } else if si == subs.len() - 1 {
                                facts.fault_pos_last += 1
                            } else {
                                facts.fault_pos_middle += 1
                            }
                        }
                    }
                }
            }
            PsOp::Run => {
                step!(ex.run());
                if case.wake_only && clean(&subs) {
                    set_marks(&mut subs, &pubs);
                }
            }
            PsOp::Poll => {
                if !case.wake_only {
                    step!(ex.poll_once());
                }
            }
            PsOp::Settle => {
                if !case.wake_only {
                    for _ in 0..queued + 2 {
                        step!(ex.poll_once());
                    }
                    step!(ex.run());
                    if clean(&subs) {
                        queued = 0;
                        set_marks(&mut subs, &pubs);
                    }
                }
            }
            PsOp::Close => {
                if !closed {
                    tx.close_channel();
                    closed = true;
                    facts.closed = true;
                    facts.close_with_peers = !pubs.is_empty() || !subs.is_empty();
                    facts.close_with_blocked_or_buffered = subs.iter().any(|s| s.si.blocked() || !s.si.buf().is_empty());
                    facts.close_after_socket = last_was_reg;
                }
            }
        }
        if !matches!(op, PsOp::Run | PsOp::Poll | PsOp::Settle) {
            last_was_reg = this_is_reg;
        } else if ex.polls > 0 && !matches!(op, PsOp::Poll) {
            // a run happened: the router had a chance to take the socket
        }
    }

    // closing phase: publishers stop (or idle), every subscriber can accept data
    if case.end_all {
        for p in &pubs {
            if !p.st.ended() {
                p.st.end();
            }
        }
    }
    for s in &subs {
        s.si.block(false);
    }
    let polls_before_final = ex.polls;
    if case.wake_only {
        step!(ex.run());
    } else {
        for _ in 0..queued + 2 {
            step!(ex.poll_once());
        }
        step!(ex.run());
    }

    facts.pubs = pubs.len();
    facts.subs = subs.len();
    facts.sink_pendings = subs.iter().map(|s| s.si.pendings()).sum();
    facts.router_pendings = ex.pendings;
    facts.one_sided = pubs.is_empty() != subs.is_empty() || (pubs.is_empty() && subs.is_empty());
    facts.pubs_yielded = pubs.iter().filter(|p| p.st.n_yielded() > 0).count();
    facts.stream_errs_yielded = pubs.iter().map(|p| p.st.0.lock().unwrap().errs_yielded).sum();
    let healthy = subs.iter().filter(|s| !s.si.failed()).count();
    facts.faults_observed_with_healthy_sibling = if healthy > 0 { subs.iter().filter(|s| s.si.observed_fail()).count() } else { 0 };
    facts.blocked_ready_with_item = subs.iter().any(|s| s.si.pendings() > 0 && s.si.0.lock().unwrap().cap < 1000);

    // ---- delivery oracle (C01 / C08 healthy peers / C16 flush-before-finish) ----
    for (si, s) in subs.iter().enumerate() {
        if s.si.failed() {
            continue;
        }
        if !closed && s.si.closed() {
            // "a publisher stream that ends affects nobody else ... the topic keeps serving"
            return Err(Outcome::fail("healthy-subscriber-closed", format!("subscriber {si}: its sink was closed by the router although it never failed and the registration channel is open")));
        }
        let buf = s.si.buf();
        if !buf.is_empty() {
            return Err(Outcome::fail(
                "unflushed",
                format!("subscriber {si}: {} frame(s) handed to the sink but never flushed: {:?}", buf.len(), buf.iter().map(ident).collect::<Vec<_>>()),
            ));
        }
        let wire = s.si.wire();
        if !wire.is_empty() {
            facts.subs_received += 1;
        }
        let mut per_pub: Vec<Vec<usize>> = vec![vec![]; pubs.len()];
        for f in &wire {
            match ident(f) {
                Some((p, n)) if p < pubs.len() && n < pubs[p].pushed.len() => {
                    if pubs[p].pushed[n] != *f {
                        return Err(Outcome::fail("altered", format!("subscriber {si}: frame p{p}:{n} differs from what the publisher sent: got {f:?} want {:?}", pubs[p].pushed[n])));
                    }
                    per_pub[p].push(n);
                }
                _ => return Err(Outcome::fail("foreign", format!("subscriber {si}: received a frame no publisher sent: {f:?}"))),
            }
        }
        for (pi, p) in pubs.iter().enumerate() {
            let y = p.st.n_yielded();
            let seqs = &per_pub[pi];
            let a = seqs.first().copied().unwrap_or(y);
            let want: Vec<usize> = (a..y).collect();
            if *seqs != want {
                let mut sorted = seqs.clone();
                sorted.sort();
                let mut dedup = sorted.clone();
                dedup.dedup();
                let kind = if dedup.len() != sorted.len() {
                    "duplicated"
                } else if sorted != *seqs {
                    "reordered"
                } else if seqs.last().map_or(true, |l| l + 1 < y) && seqs.windows(2).all(|w| w[1] == w[0] + 1) {
                    "tail-missing"
                } else {
                    "skipped"
                };
                return Err(Outcome::fail(
                    format!("delivery-{kind}"),
                    format!("subscriber {si}, publisher {pi}: received {seqs:?}, router pulled {y} frame(s) so a contiguous run to the end would be {want:?}"),
                ));
            }
            if let Some(m) = &s.mark {
                let mk = m.get(pi).copied().unwrap_or(0);
                if a > mk {
                    return Err(Outcome::fail(
                        "missed-after-registration",
                        format!("subscriber {si}, publisher {pi}: registration was processed when {mk} frame(s) had been pulled, but the first frame received is #{a}"),
                    ));
                }
            }
        }
    }

    // ---- quiescence oracle (C09): nothing the router could still do is left undone ----
    if !closed {
        for (pi, p) in pubs.iter().enumerate() {
            if p.st.queued() != 0 {
                return Err(Outcome::fail(
                    "asleep-unpulled",
                    format!("publisher {pi}: {} item(s) still queued at quiescence although every sink accepts data (router parked without a wake-up or registration never processed)", p.st.queued()),
                ));
            }
        }
    }

    // ---- termination oracle (C16): close (if not yet closed) must finish the router ----
    if !closed {
        tx.close_channel();
    }
    step!(ex.run());
    facts.max_inner = take_max_inner();
    if !ex.done {
        return Err(Outcome::fail(
            "no-finish-after-close",
            "registration channel closed, every sink accepts data, no wake-up pending, yet the router future has not completed",
        ));
    }
    let budget = total_pushed + pubs.len() + subs.len() + 50 + queued;
    if ex.polls - polls_before_final > budget {
        return Err(Outcome::fail("finish-unbounded", format!("{} polls after the last unblock (budget {budget})", ex.polls - polls_before_final)));
    }
    // after completion everything pulled must be flushed to every healthy, adopted subscriber
    for (si, s) in subs.iter().enumerate() {
        if s.si.failed() {
            continue;
        }
        if !s.si.buf().is_empty() {
            return Err(Outcome::fail("unflushed-at-finish", format!("subscriber {si}: router finished with {} unflushed frame(s)", s.si.buf().len())));
        }
        let wire = s.si.wire();
        for (pi, p) in pubs.iter().enumerate() {
            let y = p.st.n_yielded();
            let got: Vec<usize> = wire.iter().filter_map(ident).filter(|(pp, _)| *pp == pi).map(|(_, n)| n).collect();
            let a = got.first().copied().unwrap_or(y);
            if got != (a..y).collect::<Vec<_>>() {
                return Err(Outcome::fail("lost-at-finish", format!("subscriber {si}, publisher {pi}: router finished having pulled {y} frame(s) but delivered {got:?}")));
            }
        }
    }
    Ok(())
}

#[derive(Clone, Copy, Debug)]
pub struct PsGen {
    /// include registration bursts (dozens of sockets queued between two router steps)
    pub bursts: bool,
    pub faults: bool,
    pub close: bool,
    pub wake_only: bool,
    pub max_len: usize,
}

pub fn op_strategy(g: PsGen) -> BoxedStrategy<PsOp> {
    let sel = || any::<u16>();
    let mut v: Vec<(u32, BoxedStrategy<PsOp>)> = vec![
        (8, Just(PsOp::RegPub).boxed()),
        (10, (0u8..4).prop_map(|cap| PsOp::RegSub { cap }).boxed()),
        (24, (sel(), 0u8..3).prop_map(|(p, k)| PsOp::Send { p, k }).boxed()),
        (1, (sel(), 20u8..150).prop_map(|(p, k)| PsOp::Send { p, k }).boxed()),
        (2, sel().prop_map(|p| PsOp::PushErr { p }).boxed()),
        (5, sel().prop_map(|p| PsOp::EndPub { p }).boxed()),
        (10, sel().prop_map(|s| PsOp::Block { s }).boxed()),
        (9, sel().prop_map(|s| PsOp::Unblock { s }).boxed()),
        (12, Just(PsOp::Run).boxed()),
    ];
    if !g.wake_only {
        v.push((5, Just(PsOp::Poll).boxed()));
        v.push((6, Just(PsOp::Settle).boxed()));
    }
    if g.faults {
        v.push((6, (sel(), 0u8..3).prop_map(|(s, at)| PsOp::Fail { s, at }).boxed()));
    }
    if g.close {
        v.push((3, Just(PsOp::Close).boxed()));
    }
    if g.bursts {
        v.push((2, any::<u8>().prop_map(|n| PsOp::RegBurst { n }).boxed()));
    }
    proptest::strategy::Union::new_weighted(v).boxed()
}

pub fn case_strategy(g: PsGen) -> BoxedStrategy<PsCase> {
    (proptest::collection::vec(op_strategy(g), 0..g.max_len), any::<bool>(), any::<u16>())
        .prop_map(move |(ops, end_all, payload_seed)| PsCase { ops, end_all, wake_only: g.wake_only, payload_seed })
        .boxed()
}

/// Letters for bounded-exhaustive enumeration: one publisher, a cap-1 subscriber and an
/// unbounded subscriber.
pub fn small_alphabet(close: bool, fail: bool) -> Vec<PsOp> {
    let mut v = vec![
        PsOp::RegPub,
        PsOp::RegSub { cap: 0 },
        PsOp::RegSub { cap: 3 },
        PsOp::Send { p: 0, k: 0 },
        PsOp::EndPub { p: 0 },
        PsOp::Block { s: 0 },
        PsOp::Unblock { s: 0 },
        PsOp::Block { s: 0xFFFF },
        PsOp::Run,
        PsOp::Poll,
        PsOp::Settle,
    ];
    if close {
        v.push(PsOp::Close);
    }
    if fail {
        v.push(PsOp::Fail { s: 0, at: 0 });
        v.push(PsOp::Fail { s: 0, at: 1 });
        v.push(PsOp::Fail { s: 0, at: 2 });
    }
    v
}

/// All sequences over `alpha` of length `len`, in index order `from..to` (for sharding)
pub fn enumerate_seqs(alpha: &[PsOp], len: usize, from: u64, to: u64, end_all: bool) -> impl Iterator<Item = PsCase> + '_ {
    let k = alpha.len() as u64;
    (from..to).map(move |mut code| {
        let mut ops = Vec::with_capacity(len);
        for _ in 0..len {
            ops.push(alpha[(code % k) as usize].clone());
            code /= k;
        }
        PsCase { ops, end_all, wake_only: false, payload_seed: 7 }
    })
}
