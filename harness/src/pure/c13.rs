//! C13 — backoff schedules follow their law, are clamped, finite and panic-free.
use crate::core::{catch, panics, Ctx, Outcome};
use proptest::prelude::*;
use selium::keep_alive::BackoffStrategy;
use serde::{Deserialize, Serialize};
use std::time::Duration;

#[derive(Debug, Clone, Serialize, Deserialize, Hash, PartialEq, Eq)]
pub struct Case {
    /// 0 constant, 1 linear, 2 exponential
    pub kind: u8,
    pub factor: u64,
    pub step_secs: u64,
    pub step_nanos: u32,
    pub attempts: u32,
    /// (secs, nanos)
    pub cap: Option<(u64, u32)>,
}

fn dur_ns(d: Duration) -> u128 {
    d.as_nanos()
}

pub fn eval(c: &Case) -> Outcome {
    crate::core::watchdog::tick();
    let step = Duration::new(c.step_secs, c.step_nanos % 1_000_000_000);
    let step_ns = dur_ns(step);
    let cap = c.cap.map(|(s, n)| Duration::new(s, n % 1_000_000_000));
    let mut b = match c.kind % 3 {
        0 => BackoffStrategy::constant(),
        1 => BackoffStrategy::linear(),
        _ => BackoffStrategy::exponential(c.factor),
    }
    .with_step(step)
    .with_max_attempts(c.attempts);
    if let Some(cp) = cap {
        b = b.with_max_duration(cp);
    }
    let got = match catch(move || b.into_iter().collect::<Vec<_>>()) {
        Ok(v) => v,
        Err(p) => return Outcome::fail(format!("panic:{}", panics::normalise(&p)), format!("producing the schedule panicked: {p}")),
    };
    if got.len() != c.attempts as usize {
        return Outcome::fail("attempt-count", format!("schedule yielded {} attempts, configured {}", got.len(), c.attempts));
    }
    let maxd = dur_ns(Duration::MAX);
    let half = (u64::MAX as u128 / 2) * 1_000_000_000;
    let cap_ns = cap.map(dur_ns);
    let (mut any_overflow, mut cap_bites, mut cap_spares) = (false, false, false);
    // running power for the exponential law
    let mut pow: Option<u128> = Some(1); // factor^(i-1), None once it exceeds u128
    for (k, a) in got.iter().enumerate() {
        let i = k as u32 + 1;
        if a.attempt_num != i {
            return Outcome::fail("attempt-numbering", format!("item {k} has attempt_num {} (want {i})", a.attempt_num));
        }
        if a.max_attempts != c.attempts {
            return Outcome::fail("max-attempts-echo", format!("item {k} reports max_attempts {} (configured {})", a.max_attempts, c.attempts));
        }
        let g = dur_ns(a.duration);
        if let Some(cn) = cap_ns {
            if g > cn {
                return Outcome::fail("exceeds-max-delay", format!("attempt {i}: delay {g} ns exceeds the configured maximum {cn} ns"));
            }
        }
        let (exact, pow_over_u64): (Option<u128>, bool) = match c.kind % 3 {
            0 => (Some(step_ns), false),
            1 => (step_ns.checked_mul(i as u128), false),
            _ => {
                if i > 1 {
                    pow = pow.and_then(|p| p.checked_mul(c.factor as u128));
                }
                match pow {
                    Some(p) => (step_ns.checked_mul(p), p > u64::MAX as u128),
                    // factor^(i-1) exceeds 2^128: the product is representable only if step is 0
                    None => (if step_ns == 0 { Some(0) } else { None }, true),
                }
            }
        };
        let representable = exact.map_or(false, |e| e <= maxd);
        if !representable || pow_over_u64 {
            any_overflow = true;
        }
        let saturated_ok = match cap_ns {
            Some(cn) => g == cn,
            None => g >= half,
        };
        let law_ok = |e: u128| -> bool {
            let want = cap_ns.map_or(e, |cn| e.min(cn));
            let tol = if c.kind % 3 == 2 { (want >> 30) + 2 } else { 0 };
            g.abs_diff(want) <= tol
        };
        if let (Some(cn), Some(e)) = (cap_ns, exact) {
            if e > cn { cap_bites = true } else { cap_spares = true }
        }
        match exact {
            Some(e) if representable => {
                let near_max = maxd - e <= (maxd >> 30);
                let ok = law_ok(e) || ((pow_over_u64 || near_max) && saturated_ok);
                if !ok {
                    let want = cap_ns.map_or(e, |cn| e.min(cn));
                    return Outcome::fail(
                        if g < want { "law-too-small" } else { "law-too-large" },
                        format!("attempt {i}: delay {g} ns, the law gives {e} ns (clamped {want} ns)"),
                    );
                }
            }
            _ => {
                if !saturated_ok {
                    return Outcome::fail(
                        "overflow-not-saturated",
                        format!("attempt {i}: the exact delay overflows Duration; got {g} ns, expected saturation ({})", cap_ns.map_or("at least u64::MAX/2 seconds".to_string(), |c| format!("the maximum delay {c} ns"))),
                    );
                }
            }
        }
    }
    let mut labels = vec![["constant", "linear", "exponential"][(c.kind % 3) as usize]];
    if any_overflow { labels.push("overflowing-attempt"); }
    if cap_bites && cap_spares { labels.push("cap-bites-on-some-attempts"); }
    if cap.is_none() { labels.push("no-cap"); }
    if c.attempts == 0 { labels.push("zero-attempts"); }
    if c.attempts >= 1000 { labels.push("thousands-of-attempts"); }
    Outcome::pass(labels, any_overflow || (cap_bites && cap_spares))
}

pub fn strategy(max_attempts: u32) -> BoxedStrategy<Case> {
    let factor = prop_oneof![
        4 => prop::sample::select(vec![0u64, 1, 2, 3, 10, 1 << 16, 1 << 32, u64::MAX]),
        2 => 0u64..20,
        1 => any::<u64>(),
    ];
    let step = prop_oneof![
        3 => prop::sample::select(vec![(0u64, 0u32), (0, 1), (0, 999_999_999), (1, 0), (86_400 * 30, 0), (u64::MAX / 4, 0), (u64::MAX / 4 + 1, 5), (u64::MAX, 999_999_999)]),
        3 => (0u64..1, any::<u32>()),
        2 => (0u64..100_000, any::<u32>()),
        1 => (any::<u64>(), any::<u32>()),
    ];
    let attempts = prop_oneof![
        4 => 0u32..8,
        4 => 8u32..140,
        2 => 140u32..=max_attempts,
    ];
    let cap = prop_oneof![
        3 => Just(None),
        1 => Just(Some((0u64, 0u32))),
        3 => (0u64..100_000, any::<u32>()).prop_map(Some),
        1 => (any::<u64>(), any::<u32>()).prop_map(Some),
        1 => Just(Some((u64::MAX, 999_999_999u32))),
    ];
    (0u8..3, factor, step, attempts, cap)
        .prop_map(|(kind, factor, (step_secs, step_nanos), attempts, cap)| Case { kind, factor, step_secs, step_nanos: step_nanos % 1_000_000_000, attempts, cap: cap.map(|(s, n)| (s, n % 1_000_000_000)) })
        .boxed()
}

pub fn run(ctx: &mut Ctx) {
    ctx.rule = "backoff configurations: strategy in {constant, linear, exponential(f)}, f in {0,1,2,3,10,2^16,2^32,u64::MAX, small, random}, step from {0, 1ns, sub-second, seconds, days, >= Duration::MAX/4, random}, attempts 0..3000 (thorough 0..10000), optional maximum delay {none, 0, random, huge}; oracle = exact law in 128-bit nanosecond arithmetic (exact for constant/linear, 2^-30 relative + 2 ns for exponential), then min(cap); overflow must saturate; non-trivial = some attempt's exact delay overflows u64 multiplication or Duration, or the cap bites on some attempts and not on others; distinct by configuration".into();
    ctx.assumptions.push("when only the intermediate power factor^(n-1) exceeds u64 but the final delay is representable, both the exact value and the saturated value are accepted".into());
    ctx.assumptions.push("within 2^-30 of Duration::MAX the saturated value is accepted".into());
    let max_att = ctx.tier.pick(3000, 10_000);
    ctx.search("schedules", move || strategy(max_att), ctx.tier.pick(200_000, 3_000_000), true, eval);
}

pub fn replay(id: &str, case: &serde_json::Value) -> i32 {
    crate::core::replay_case::<Case>(id, case, 1, eval)
}
