//! C14 — payload transforms are lossless: codecs and every compression algorithm/level.
use crate::core::{catch, panics, Ctx, Outcome};
use bytes::{Bytes, BytesMut};
use proptest::prelude::*;
use selium_protocol::utils::{decode_message_batch, encode_message_batch};
use selium_std::codecs::{BincodeCodec, BytesCodec, StringCodec};
use selium_std::compression::{brotli::*, deflate::*, lz4::*, zstd::*};
use selium_std::traits::codec::{MessageDecoder, MessageEncoder};
use selium_std::traits::compression::{Compress, CompressionLevel, Decompress};
use serde::{Deserialize, Serialize};

use super::c05::BatchResult;

#[derive(Debug, Clone, Copy, Serialize, Deserialize, Hash, PartialEq, Eq)]
pub enum Algo {
    Gzip(u8),
    Zlib(u8),
    Zstd(u8),
    Lz4,
    Brotli { mode: u8, level: u8 },
    /// preset 0 fastest, 1 balanced, 2 highest_ratio; algo 0 gzip 1 zlib 2 zstd 3..5 brotli modes
    Preset { algo: u8, preset: u8 },
}

pub fn make(a: Algo) -> (Box<dyn Compress + Send + Sync>, Box<dyn Decompress + Send + Sync>, &'static str) {
    fn preset<T: CompressionLevel>(t: T, p: u8) -> T {
        match p % 3 {
            0 => t.fastest(),
            1 => t.balanced(),
            _ => t.highest_ratio(),
        }
    }
    match a {
        Algo::Gzip(l) => (Box::new(DeflateComp::gzip().level((l % 10) as u32)), Box::new(DeflateDecomp::gzip()), "gzip"),
        Algo::Zlib(l) => (Box::new(DeflateComp::zlib().level((l % 10) as u32)), Box::new(DeflateDecomp::zlib()), "zlib"),
        Algo::Zstd(l) => (Box::new(ZstdComp::new().level((l % 23) as u32)), Box::new(ZstdDecomp), "zstd"),
        Algo::Lz4 => (Box::new(Lz4Comp), Box::new(Lz4Decomp), "lz4"),
        Algo::Brotli { mode, level } => {
            let c = match mode % 3 {
                0 => BrotliComp::generic(),
                1 => BrotliComp::text(),
                _ => BrotliComp::font(),
            };
            (Box::new(c.level((level % 12) as u32)), Box::new(BrotliDecomp), "brotli")
        }
        Algo::Preset { algo, preset: p } => match algo % 6 {
            0 => (Box::new(preset(DeflateComp::gzip(), p)), Box::new(DeflateDecomp::gzip()), "gzip-preset"),
            1 => (Box::new(preset(DeflateComp::zlib(), p)), Box::new(DeflateDecomp::zlib()), "zlib-preset"),
            2 => (Box::new(preset(ZstdComp::new(), p)), Box::new(ZstdDecomp), "zstd-preset"),
            3 => (Box::new(preset(BrotliComp::generic(), p)), Box::new(BrotliDecomp), "brotli-preset"),
            4 => (Box::new(preset(BrotliComp::text(), p)), Box::new(BrotliDecomp), "brotli-preset"),
            _ => (Box::new(preset(BrotliComp::font(), p)), Box::new(BrotliDecomp), "brotli-preset"),
        },
    }
}

/// slow at high levels: restrict the payload size for those
pub fn is_slow(a: Algo) -> bool {
    match a {
        Algo::Zstd(l) => l % 23 >= 19,
        Algo::Brotli { level, .. } => level % 12 >= 10,
        Algo::Preset { algo, preset } => algo % 6 >= 3 && preset % 3 == 2,
        _ => false,
    }
}

#[derive(Debug, Clone, Serialize, Deserialize, Hash, PartialEq, Eq)]
pub struct Payload {
    /// 0 random, 1 one byte repeated, 2 short period, 3 mixed runs, 4 text
    pub kind: u8,
    pub size: u32,
    pub seed: u16,
}
pub fn payload_bytes(p: &Payload) -> Vec<u8> {
    let n = p.size as usize;
    let mut x = p.seed as u64 | 1 << 20;
    let mut next = move || {
        x = x.wrapping_mul(6364136223846793005).wrapping_add(1442695040888963407);
        (x >> 33) as u32
    };
    match p.kind % 5 {
        0 => (0..n).map(|_| next() as u8).collect(),
        1 => vec![p.seed as u8; n],
        2 => {
            let period = 1 + (p.seed as usize % 13);
            let pat: Vec<u8> = (0..period).map(|_| next() as u8).collect();
            (0..n).map(|i| pat[i % period]).collect()
        }
        3 => {
            let mut v = Vec::with_capacity(n);
            while v.len() < n {
                let run = 1 + next() as usize % 300;
                if next() % 2 == 0 {
                    let b = next() as u8;
                    v.extend(std::iter::repeat(b).take(run.min(n - v.len())));
                } else {
                    for _ in 0..run.min(n - v.len()) {
                        v.push(next() as u8);
                    }
                }
            }
            v
        }
        _ => {
            let words = ["selium ", "topic ", "publish ", "ünïcødé ", "lorem ", "ipsum ", "日本語 ", "\n"];
            let mut v = Vec::with_capacity(n + 16);
            while v.len() < n {
                v.extend_from_slice(words[next() as usize % words.len()].as_bytes());
            }
            v.truncate(n);
            v
        }
    }
}

#[derive(Debug, Clone, PartialEq, Serialize, Deserialize, Hash, Eq)]
pub enum Shape {
    Unit,
    Circle { r: u32 },
    Poly(Vec<(i16, i16)>),
    Named(String, Option<Box<Shape>>),
}
#[derive(Debug, Clone, PartialEq, Serialize, Deserialize, Hash, Eq)]
pub struct Record {
    pub id: u64,
    pub name: String,
    pub tags: Vec<String>,
    pub opt: Option<i32>,
    pub shape: Shape,
    pub blob: Vec<u8>,
    pub nested: Vec<Vec<u16>>,
    pub flag: bool,
    pub ch: char,
}

fn shape_strategy() -> BoxedStrategy<Shape> {
    let leaf = prop_oneof![
        Just(Shape::Unit),
        any::<u32>().prop_map(|r| Shape::Circle { r }),
        proptest::collection::vec((any::<i16>(), any::<i16>()), 0..6).prop_map(Shape::Poly),
    ];
    leaf.prop_recursive(3, 8, 2, |inner| (".{0,8}", proptest::option::of(inner.prop_map(Box::new))).prop_map(|(s, b)| Shape::Named(s, b))).boxed()
}
pub fn record_strategy() -> BoxedStrategy<Record> {
    (
        any::<u64>(),
        ".{0,24}",
        proptest::collection::vec(".{0,8}", 0..5),
        any::<Option<i32>>(),
        shape_strategy(),
        proptest::collection::vec(any::<u8>(), 0..64),
        proptest::collection::vec(proptest::collection::vec(any::<u16>(), 0..5), 0..4),
        any::<bool>(),
        any::<char>(),
    )
        .prop_map(|(id, name, tags, opt, shape, blob, nested, flag, ch)| Record { id, name, tags, opt, shape, blob, nested, flag, ch })
        .boxed()
}

#[derive(Debug, Clone, Serialize, Deserialize, Hash, PartialEq, Eq)]
pub enum Case {
    Compress {
        algo: Algo,
        payload: Payload,
        /// 1: the payload is itself the compressor's output for random bytes (pre-compressed
        /// data: incompressible and starting with the format's own magic); 2: before the
        /// round trip the decompressor is given a damaged stream (on the same thread) and
        /// whatever it answers is ignored; other values: plain round trip
        #[serde(default)]
        pre: u8,
    },
    StringCodec(String),
    BytesCodec(Vec<u8>),
    Bincode(Record),
    /// encode each -> batch -> compress -> decompress -> unbatch -> decode each
    Compose { algo: Option<Algo>, strings: Vec<String>, records: Vec<Record> },
    /// valid UTF-8 prefix + an invalid sequence (+ suffix): StringCodec must error
    InvalidUtf8 { prefix: String, bad: u8, suffix: String },
    /// a bincode encoding cut short: must error, never a value
    TruncatedBincode { rec: Record, cut: u16 },
}

const BAD_UTF8: [&[u8]; 8] = [b"\x80", b"\xC0\xAF", b"\xED\xA0\x80", b"\xFF", b"\xF8\x88\x80\x80\x80", b"\xE2\x82", b"\xC3", b"\xF4\x90\x80\x80"];

pub fn eval(c: &Case) -> Outcome {
    crate::core::watchdog::tick();
    match catch(|| eval_inner(c)) {
        Ok(o) => o,
        Err(p) => Outcome::fail(format!("panic:{}", panics::normalise(&p)), format!("transform panicked: {p}")),
    }
}

fn eval_inner(c: &Case) -> Outcome {
    match c {
        Case::Compress { algo, payload, pre } => {
            let (comp, decomp, name) = make(*algo);
            let mut data = Bytes::from(payload_bytes(payload));
            let mut extra: Vec<&'static str> = vec![];
            if pre % 4 == 1 {
                // pre-compressed payload
                // (random bytes: the output is about as long as the input; text: a genuine, much
                // shorter stream of the format that is itself incompressible)
                let inner = Bytes::from(payload_bytes(&Payload { kind: if payload.seed % 2 == 0 { 0 } else { 4 }, size: payload.size.clamp(64, 200_000), seed: payload.seed }));
                data = match comp.compress(inner) {
                    Ok(z) => z,
                    Err(e) => return Outcome::fail("compress-error", format!("{algo:?}: {e}")),
                };
                extra.push("precompressed-payload");
            }
            if pre % 4 == 2 && !is_slow(*algo) {
                // a refused (or half-accepted) payload first: it must leave nothing behind
                let other = Bytes::from(payload_bytes(&Payload { kind: 4, size: 300_000, seed: payload.seed ^ 0x55 }));
                if let Ok(z) = comp.compress(other) {
                    let mut bad = z.to_vec();
                    let n = bad.len();
                    if payload.seed % 2 == 0 && n > 12 {
                        bad.truncate(n - 1 - (payload.seed as usize % 8));
                    } else if n > 4 {
                        let i = n - 1 - (payload.seed as usize % 4);
                        bad[i] ^= 0x5a;
                    }
                    let _ = catch(|| decomp.decompress(Bytes::from(bad.clone())));
                    let _ = catch(|| make(*algo).1.decompress(Bytes::from(bad)));
                    extra.push("after-a-damaged-stream");
                }
            }
            let z = match comp.compress(data.clone()) {
                Ok(z) => z,
                Err(e) => return Outcome::fail("compress-error", format!("{algo:?} failed to compress {} bytes: {e}", data.len())),
            };
            match decomp.decompress(z.clone()) {
                Ok(back) if back == data => {
                    let mut l = vec![name];
                    if data.is_empty() { l.push("empty-payload"); }
                    if data.len() >= 4096 { l.push("payload>=4KiB"); }
                    if data.len() >= 1 << 20 { l.push("payload-1MiB"); }
                    if z.len() >= data.len() { l.push("incompressible"); }
                    l.extend(extra.iter().copied());
                    Outcome::pass(l, data.len() >= 4096 && !matches!(algo, Algo::Preset { .. }))
                }
                Ok(back) => {
                    let pos = back.iter().zip(data.iter()).position(|(a, b)| a != b).unwrap_or(back.len().min(data.len()));
                    Outcome::fail("compress-roundtrip", format!("{algo:?}: decompress(compress(x)) != x: {} bytes in, {} bytes back, first difference at {pos}", data.len(), back.len()))
                }
                Err(e) => Outcome::fail("decompress-error", format!("{algo:?}: decompressor rejected the compressor's output for {} bytes: {e}", data.len())),
            }
        }
        Case::StringCodec(s) => {
            let enc = match StringCodec.encode(s.clone()) {
                Ok(b) => b,
                Err(e) => return Outcome::fail("string-encode-error", format!("{e}")),
            };
            if enc[..] != *s.as_bytes() {
                return Outcome::fail("string-encoding-not-utf8-bytes", format!("{s:?} encoded to {enc:?}"));
            }
            match StringCodec.decode(&mut BytesMut::from(&enc[..])) {
                Ok(b) if b == *s => Outcome::pass(vec!["string-codec"], !s.is_ascii()),
                Ok(b) => Outcome::fail("string-roundtrip", format!("{s:?} -> {b:?}")),
                Err(e) => Outcome::fail("string-decode-error", format!("{s:?}: {e}")),
            }
        }
        Case::BytesCodec(v) => {
            let enc = match BytesCodec.encode(v.clone()) {
                Ok(b) => b,
                Err(e) => return Outcome::fail("bytes-encode-error", format!("{e}")),
            };
            match BytesCodec.decode(&mut BytesMut::from(&enc[..])) {
                Ok(b) if b == *v => Outcome::pass(vec!["bytes-codec"], v.len() >= 2),
                Ok(b) => Outcome::fail("bytes-roundtrip", format!("{} bytes -> {} bytes", v.len(), b.len())),
                Err(e) => Outcome::fail("bytes-decode-error", format!("{e}")),
            }
        }
        Case::Bincode(r) => {
            let codec = BincodeCodec::<Record>::default();
            let enc = match codec.encode(r.clone()) {
                Ok(b) => b,
                Err(e) => return Outcome::fail("bincode-encode-error", format!("{e}")),
            };
            match codec.decode(&mut BytesMut::from(&enc[..])) {
                Ok(b) if b == *r => Outcome::pass(vec!["bincode-codec"], true),
                Ok(b) => Outcome::fail("bincode-roundtrip", format!("{r:?} -> {b:?}")),
                Err(e) => Outcome::fail("bincode-decode-error", format!("{r:?}: {e}")),
            }
        }
        Case::Compose { algo, strings, records } => {
            let sc = StringCodec;
            let bc = BincodeCodec::<Record>::default();
            let mut msgs: Vec<Bytes> = vec![];
            for s in strings {
                msgs.push(sc.encode(s.clone()).unwrap());
            }
            for r in records {
                msgs.push(bc.encode(r.clone()).unwrap());
            }
            let k = msgs.len();
            let mut wire = encode_message_batch(msgs);
            let tools = algo.map(make);
            if let Some((comp, _, _)) = &tools {
                wire = match comp.compress(wire) {
                    Ok(z) => z,
                    Err(e) => return Outcome::fail("compose-compress-error", format!("{e}")),
                };
            }
            // receiving side
            let mut got = wire;
            if let Some((_, decomp, _)) = &tools {
                got = match decomp.decompress(got) {
                    Ok(b) => b,
                    Err(e) => return Outcome::fail("compose-decompress-error", format!("{algo:?}: {e}")),
                };
            }
            let parts = match decode_message_batch(got).norm() {
                Ok(p) => p,
                Err(e) => return Outcome::fail("compose-unbatch-error", e),
            };
            if parts.len() != k {
                return Outcome::fail("compose-count", format!("{k} messages in, {} out", parts.len()));
            }
            for (i, s) in strings.iter().enumerate() {
                match sc.decode(&mut BytesMut::from(&parts[i][..])) {
                    Ok(b) if b == *s => {}
                    other => return Outcome::fail("compose-roundtrip", format!("message {i}: {s:?} came back as {other:?}")),
                }
            }
            for (j, r) in records.iter().enumerate() {
                match bc.decode(&mut BytesMut::from(&parts[strings.len() + j][..])) {
                    Ok(b) if b == *r => {}
                    other => return Outcome::fail("compose-roundtrip", format!("record {j}: {r:?} came back as {other:?}")),
                }
            }
            Outcome::pass(vec!["composition"], k >= 2 && !matches!(algo, Some(Algo::Preset { .. })))
        }
        Case::InvalidUtf8 { prefix, bad, suffix } => {
            let mut v = prefix.as_bytes().to_vec();
            v.extend_from_slice(BAD_UTF8[*bad as usize % BAD_UTF8.len()]);
            v.extend_from_slice(suffix.as_bytes());
            if std::str::from_utf8(&v).is_ok() {
                return Outcome::Inconclusive("generator produced valid UTF-8".into());
            }
            match StringCodec.decode(&mut BytesMut::from(&v[..])) {
                Err(_) => Outcome::pass(vec!["invalid-utf8-rejected"], true),
                Ok(s) => Outcome::fail("invalid-utf8-accepted", format!("bytes {v:?} are not valid UTF-8 but decoded to {s:?}")),
            }
        }
        Case::TruncatedBincode { rec, cut } => {
            let codec = BincodeCodec::<Record>::default();
            let enc = codec.encode(rec.clone()).unwrap();
            let k = ((*cut as usize) * enc.len()) >> 16; // 0..len-1: always a strict prefix
            match codec.decode(&mut BytesMut::from(&enc[..k])) {
                Err(_) => Outcome::pass(vec!["truncated-bincode-rejected"], true),
                Ok(v) => Outcome::fail("truncated-bincode-accepted", format!("a {k}-byte prefix of a {}-byte encoding decoded to {v:?}", enc.len())),
            }
        }
    }
}

pub fn algo_strategy() -> BoxedStrategy<Algo> {
    prop_oneof![
        3 => (0u8..10).prop_map(Algo::Gzip),
        3 => (0u8..10).prop_map(Algo::Zlib),
        5 => (0u8..23).prop_map(Algo::Zstd),
        1 => Just(Algo::Lz4),
        6 => (0u8..3, 0u8..12).prop_map(|(mode, level)| Algo::Brotli { mode, level }),
        2 => (0u8..6, 0u8..3).prop_map(|(algo, preset)| Algo::Preset { algo, preset }),
    ]
    .boxed()
}
fn payload_strategy(large: bool) -> BoxedStrategy<Payload> {
    let size = if large {
        prop_oneof![2 => Just(1u32 << 20), 1 => (1u32 << 20) - 64..(1u32 << 20), 2 => 200_000u32..(1 << 20)].boxed()
    } else {
        prop_oneof![1 => Just(0u32), 1 => Just(1u32), 4 => 2u32..300, 5 => 300u32..5000, 5 => 4096u32..66_000].boxed()
    };
    (0u8..5, size, any::<u16>()).prop_map(|(kind, size, seed)| Payload { kind, size, seed }).boxed()
}
pub fn strategy() -> BoxedStrategy<Case> {
    prop_oneof![
        10 => (algo_strategy(), payload_strategy(false), prop_oneof![4 => Just(0u8), 1 => Just(1u8), 1 => Just(2u8)]).prop_map(|(algo, payload, pre)| Case::Compress { algo, payload, pre }),
        2 => ".{0,200}".prop_map(Case::StringCodec),
        1 => proptest::collection::vec(any::<u8>(), 0..300).prop_map(Case::BytesCodec),
        3 => record_strategy().prop_map(Case::Bincode),
        4 => (proptest::option::weighted(0.8, algo_strategy()), proptest::collection::vec(".{0,60}", 0..6), proptest::collection::vec(record_strategy(), 0..4)).prop_map(|(algo, strings, records)| Case::Compose { algo, strings, records }),
        2 => (".{0,20}", any::<u8>(), ".{0,20}").prop_map(|(prefix, bad, suffix)| Case::InvalidUtf8 { prefix, bad, suffix }),
        2 => (record_strategy(), any::<u16>()).prop_map(|(rec, cut)| Case::TruncatedBincode { rec, cut }),
    ]
    .boxed()
}
pub fn large_strategy() -> BoxedStrategy<Case> {
    (algo_strategy().prop_filter("fast enough for 1 MiB in the quick tier", |a| !is_slow(*a)), payload_strategy(true)).prop_map(|(algo, payload)| Case::Compress { algo, payload, pre: 0 }).boxed()
}

pub fn run(ctx: &mut Ctx) {
    ctx.rule = "payloads (random/incompressible, one byte repeated, short-period patterns, mixed runs, multi-byte text; sizes 0, 1, tiny, KiBs, up to 64 KiB, and a leg at 200 KiB-1 MiB; in a sixth of the cases the payload is itself the compressor's output for random bytes, in another sixth the decompressor is first given a truncated or bit-flipped stream on the same thread, whose outcome is ignored) x every algorithm/mode/level (gzip 0-9, zlib 0-9, zstd 0-22, lz4, brotli generic/text/font 0-11, the three presets of each); values of the string/bytes/bincode codecs (nested struct with strings, vectors, options, recursive enum); the wire composition encode->batch(k)->compress->decompress->unbatch->decode; invalid UTF-8 (lone continuation, overlong, surrogate, 0xFF, truncated sequence) and truncated bincode must be errors; non-trivial = payload >= 4 KiB or composition with k >= 2 at a level other than a preset, or a codec value/invalid input case; distinct by case hash".into();
    ctx.assumptions.push("levels outside the libraries' documented ranges are out of domain ('supported level')".into());
    ctx.search("transforms", strategy, ctx.tier.pick(12_000, 300_000), true, eval);
    if ctx.failed() { return; }
    ctx.search("large-payloads", large_strategy, ctx.tier.pick(160, 4_000), true, eval);
    if ctx.failed() { return; }
    if ctx.tier == crate::core::Tier::Thorough {
        // every algorithm/level at exactly 1 MiB, two content kinds (enumerated)
        let mut all = vec![];
        for l in 0..10 { all.push(Algo::Gzip(l)); all.push(Algo::Zlib(l)); }
        for l in 0..23 { all.push(Algo::Zstd(l)); }
        all.push(Algo::Lz4);
        for m in 0..3 { for l in 0..12 { all.push(Algo::Brotli { mode: m, level: l }); } }
        for a in 0..6 { for p in 0..3 { all.push(Algo::Preset { algo: a, preset: p }); } }
        let cases: Vec<Case> = all.iter().flat_map(|a| [3u8, 4].into_iter().map(move |k| Case::Compress { algo: *a, payload: Payload { kind: k, size: 1 << 20, seed: 77 }, pre: 0 })).collect();
        ctx.enumerate("all-levels-1MiB", cases.into_iter(), eval);
    }
}

pub fn replay(id: &str, case: &serde_json::Value) -> i32 {
    crate::core::replay_case::<Case>(id, case, 1, eval)
}

/// wrappers so that boxed trait objects can be handed to the client builders
pub struct CompBox(pub Box<dyn Compress + Send + Sync>);
impl Compress for CompBox {
    fn compress(&self, i: Bytes) -> anyhow::Result<Bytes> {
        self.0.compress(i)
    }
}
pub struct DecompBox(pub Box<dyn Decompress + Send + Sync>);
impl Decompress for DecompBox {
    fn decompress(&self, i: Bytes) -> anyhow::Result<Bytes> {
        self.0.decompress(i)
    }
}
