pub mod c13;
pub mod c05;
pub mod c07;
pub mod c14;
pub mod c06;
