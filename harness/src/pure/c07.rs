//! C07 (grammar half) — topic names: differential check against a hand-written reference.
use crate::core::{catch, panics, Ctx, Outcome};
use proptest::prelude::*;
use selium_protocol::TopicName;
use serde::{Deserialize, Serialize};

#[derive(Debug, Clone, Serialize, Deserialize, Hash, PartialEq, Eq)]
pub enum Case {
    /// a whole string for try_from
    Str(String),
    /// (namespace, topic) for create()
    Pair(String, String),
}

fn comp_ok_ascii(p: &str) -> bool {
    let n = p.chars().count();
    (3..=64).contains(&n) && p.chars().all(|c| c.is_ascii_alphanumeric() || c == '_' || c == '-')
}
/// the grammar of the property, for all-ASCII inputs
pub fn reference_ascii(ns: &str, t: &str) -> bool {
    comp_ok_ascii(ns) && comp_ok_ascii(t) && !ns.starts_with("selium")
}
pub fn split_ref(s: &str) -> Option<(&str, &str)> {
    let rest = s.strip_prefix('/')?;
    let mut it = rest.split('/');
    let (a, b) = (it.next()?, it.next()?);
    if it.next().is_some() {
        return None;
    }
    Some((a, b))
}
/// structural verdict usable for any Unicode string: Some(false) = must be rejected,
/// Some(true) = must be accepted, None = gray (only non-ASCII word characters decide)
pub fn reference_any(ns: &str, t: &str) -> Option<bool> {
    let comp = |p: &str| -> Option<bool> {
        let n = p.chars().count();
        if !(3..=64).contains(&n) {
            return Some(false);
        }
        if p.chars().any(|c| c.is_ascii() && !(c.is_ascii_alphanumeric() || c == '_' || c == '-')) {
            return Some(false);
        }
        if p.chars().any(|c| !c.is_ascii() && !c.is_alphanumeric()) {
            // non-ASCII and not a letter/digit in any script: still rejected by any reading
            // of "letters, digits, '_' and '-'" except for connector punctuation (\w) -> gray
            return None;
        }
        if p.is_ascii() {
            Some(true)
        } else {
            None
        }
    };
    if ns.starts_with("selium") {
        return Some(false);
    }
    match (comp(ns), comp(t)) {
        (Some(false), _) | (_, Some(false)) => Some(false),
        (Some(true), Some(true)) => Some(true),
        _ => None,
    }
}

pub fn eval(c: &Case) -> Outcome {
    crate::core::watchdog::tick();
    match c {
        Case::Str(s) => {
            let s2 = s.clone();
            let r = match catch(move || TopicName::try_from(s2.as_str()).map(|t| (t.to_string(), t.namespace().to_string(), t.topic().to_string(), t.is_valid()))) {
                Ok(r) => r,
                Err(p) => return Outcome::fail(format!("panic:{}", panics::normalise(&p)), format!("TopicName::try_from({s:?}) panicked: {p}")),
            };
            let verdict = match split_ref(s) {
                None => Some(false),
                Some((ns, t)) => reference_any(ns, t),
            };
            let mut labels = vec![];
            if !s.is_ascii() { labels.push("non-ascii"); }
            if s.chars().next().map_or(false, |c| c.len_utf8() > 1) { labels.push("multibyte-first-char"); }
            match (&r, verdict) {
                (Ok(_), Some(false)) => return Outcome::fail("accepted-invalid-name", format!("{s:?} was accepted but violates the grammar")),
                (Err(_), Some(true)) => return Outcome::fail("rejected-valid-name", format!("{s:?} is a valid /namespace/topic name but was rejected")),
                (_, None) => labels.push("unicode-gray-zone"),
                _ => {}
            }
            if let Ok((printed, ns, t, valid)) = &r {
                labels.push("accepted");
                if printed != s {
                    return Outcome::fail("display-roundtrip", format!("accepted {s:?} prints back as {printed:?}"));
                }
                let (rns, rt) = split_ref(s).unwrap_or(("", ""));
                if ns != rns || t != rt {
                    return Outcome::fail("components", format!("{s:?}: namespace()/topic() = {ns:?}/{t:?}"));
                }
                if !valid {
                    return Outcome::fail("is-valid-disagrees", format!("{s:?} accepted by try_from but is_valid() is false"));
                }
            } else {
                labels.push("rejected");
            }
            let boundary = near_boundary(s);
            if boundary { labels.push("near-boundary"); }
            Outcome::pass(labels, boundary || !s.is_ascii())
        }
        Case::Pair(ns, t) => {
            let (n2, t2) = (ns.clone(), t.clone());
            let r = match catch(move || {
                let a = TopicName::create(&n2, &t2).map(|x| x.to_string());
                let joined = format!("/{n2}/{t2}");
                let b = TopicName::try_from(joined.as_str()).is_ok();
                let v = TopicName::_create_unchecked(&n2, &t2).is_valid();
                (a, b, v)
            }) {
                Ok(r) => r,
                Err(p) => return Outcome::fail(format!("panic:{}", panics::normalise(&p)), format!("TopicName::create({ns:?},{t:?}) panicked: {p}")),
            };
            let (a, b, v) = r;
            // "/"-containing parts make the joined string parse differently: compare only
            // when neither part contains '/'
            let comparable = !ns.contains('/') && !t.contains('/');
            if comparable && a.is_ok() != b {
                return Outcome::fail("create-vs-try_from", format!("create({ns:?},{t:?}) ok={} but try_from(\"/{ns}/{t}\") ok={b}", a.is_ok()));
            }
            if a.is_ok() != v {
                return Outcome::fail("create-vs-is_valid", format!("create({ns:?},{t:?}) ok={} but is_valid()={v}", a.is_ok()));
            }
            let verdict = if comparable { reference_any(ns, t) } else { Some(false) };
            match (a.is_ok(), verdict) {
                (true, Some(false)) => return Outcome::fail("accepted-invalid-name", format!("create({ns:?},{t:?}) accepted a pair that violates the grammar")),
                (false, Some(true)) => return Outcome::fail("rejected-valid-name", format!("create({ns:?},{t:?}) rejected a valid pair")),
                _ => {}
            }
            if let Ok(p) = &a {
                if *p != format!("/{ns}/{t}") {
                    return Outcome::fail("display-roundtrip", format!("create({ns:?},{t:?}) prints {p:?}"));
                }
            }
            let s = format!("/{ns}/{t}");
            Outcome::pass(vec!["pair"], near_boundary(&s) || !s.is_ascii())
        }
    }
}

fn near_boundary(s: &str) -> bool {
    if let Some((ns, t)) = split_ref(s) {
        let l = |p: &str| p.chars().count();
        [l(ns), l(t)].iter().any(|n| matches!(n, 2 | 3 | 64 | 65)) || ns.starts_with("seliu") || ns.to_lowercase().starts_with("selium") || s.chars().filter(|c| !(c.is_alphanumeric() || *c == '_' || *c == '-' || *c == '/')).count() == 1
    } else {
        // one structural edit away: missing leading slash or a third component
        s.matches('/').count().abs_diff(2) <= 1
    }
}

fn comp_strategy() -> BoxedStrategy<String> {
    let re = |q: &str| proptest::string::string_regex(&format!("[A-Za-z0-9_-]{q}")).unwrap();
    prop_oneof![
        4 => re("{3,8}"),
        2 => re("{3}"),
        1 => re("{2}"),
        2 => re("{63,64}"),
        1 => re("{65}"),
        1 => re("{0,1}"),
        1 => re("{66,130}"),
    ]
    .boxed()
}
fn mutate(s: String, kind: u8, pos: u16, ch: char) -> String {
    let mut v: Vec<char> = s.chars().collect();
    if v.is_empty() {
        return s;
    }
    let i = (pos as usize * v.len()) >> 16;
    match kind % 4 {
        0 => v[i] = ch,
        1 => v.insert(i, ch),
        2 => {
            v.remove(i);
        }
        _ => {}
    }
    v.into_iter().collect()
}
pub fn strategy() -> BoxedStrategy<Case> {
    let bad_chars = prop::sample::select(vec![' ', '.', '/', '!', '\n', '\0', '@', '+', '\\', '\t', 'é', 'ø', 'λ', '‿', '日', '🙂', '\u{301}', '٣']);
    let reserved = prop::sample::select(vec!["selium", "seliumX", "Selium", "xselium", "seliu", "selium-", "SELIUM", "sélium"]);
    let whole = prop_oneof![
        // valid-shaped names and one-edit neighbours
        8 => (comp_strategy(), comp_strategy(), 0u8..8, any::<u16>(), bad_chars.clone(), 0u8..12).prop_map(|(ns, t, mk, pos, ch, shape)| {
            let s = match shape {
                0 => format!("{ns}/{t}"),
                1 => format!("/{ns}/{t}/x"),
                2 => format!("/{ns}"),
                3 => format!("/{ns}/"),
                4 => format!("//{t}"),
                5 => format!("/{ns}//{t}"),
                6 => format!("/{ns}/{t}\n"),
                _ => format!("/{ns}/{t}"),
            };
            if mk < 3 { mutate(s, mk, pos, ch) } else { s }
        }),
        // reserved-word placements
        3 => (reserved, comp_strategy(), comp_strategy(), 0u8..4).prop_map(|(r, a, b, place)| match place {
            0 => format!("/{r}/{b}"),
            1 => format!("/{r}{a}/{b}"),
            2 => format!("/{a}/{r}"),
            _ => format!("/{a}{r}/{b}"),
        }),
        // multi-byte first character and elsewhere
        2 => (bad_chars.clone(), comp_strategy(), comp_strategy()).prop_map(|(c, a, b)| format!("{c}{a}/{b}")),
        2 => (bad_chars.clone(), comp_strategy(), comp_strategy(), any::<u16>()).prop_map(|(c, a, b, pos)| mutate(format!("/{a}/{b}"), 1, pos, c)),
        // arbitrary unicode
        2 => ".{0,40}",
        1 => "[/a-z\\PC]{0,20}",
        1 => Just(String::new()),
    ]
    .prop_map(Case::Str);
    let pair = (
        prop_oneof![4 => comp_strategy(), 1 => ".{0,10}", 1 => prop::sample::select(vec!["selium", "seliumX", "Selium", "xselium"]).prop_map(|s| s.to_string())],
        prop_oneof![4 => comp_strategy(), 1 => ".{0,10}"],
        0u8..6,
        any::<u16>(),
        bad_chars,
    )
        .prop_map(|(ns, t, mk, pos, ch)| if mk < 2 { Case::Pair(mutate(ns, mk, pos, ch), t) } else if mk == 2 { Case::Pair(ns, mutate(t, 0, pos, ch)) } else { Case::Pair(ns, t) });
    prop_oneof![5 => whole, 2 => pair].boxed()
}

pub fn run_grammar(ctx: &mut Ctx) {
    ctx.search("grammar", strategy, ctx.tier.pick(150_000, 3_000_000), true, eval);
}

pub fn replay(id: &str, case: &serde_json::Value) -> i32 {
    crate::core::replay_case::<Case>(id, case, 1, eval)
}
