//! C06 — no bytes from the network can crash a decoder.
//!
//! The decoders run in a child worker process (`c06worker`, same crate) that has a
//! counting global allocator: the parent generates inputs with proptest, sends each over
//! a pipe and judges the reply (status, largest single allocation request, peak live
//! memory, output size). A worker that dies (abort, allocation over the hard cap) is
//! attributed to the input it was given, respawned, and the search/shrinking continues.
use crate::core::{Ctx, Outcome};
use bytes::{Bytes, BytesMut};
use proptest::prelude::*;
use selium_protocol::utils::encode_message_batch;
use selium_std::codecs::{BincodeCodec, BytesCodec, StringCodec};
use selium_std::traits::codec::{MessageDecoder, MessageEncoder};
use serde::{Deserialize, Serialize};
use std::cell::RefCell;
use std::collections::HashMap;
use std::io::{Read, Write};
use std::process::{Child, ChildStdin, ChildStdout, Command, Stdio};

use super::c05::{self, BatchResult};
use super::c14::{self, Algo, Record};

pub const T_FRAMES: u8 = 0;
pub const T_BATCH: u8 = 1;
pub const T_STRING: u8 = 2;
pub const T_BYTES: u8 = 3;
pub const T_BINCODE_RECORD: u8 = 4;
pub const T_BINCODE_STRINGS: u8 = 5;
pub const T_BINCODE_MAP: u8 = 6;
pub const T_GZIP: u8 = 7;
pub const T_ZLIB: u8 = 8;
pub const T_ZSTD: u8 = 9;
pub const T_LZ4: u8 = 10;
pub const T_BROTLI: u8 = 11;
/// subscriber pipeline: [decompress] -> unbatch -> decode each (string)
pub const T_SUB_PLAIN: u8 = 12;
pub const T_SUB_ZSTD: u8 = 13;
pub const T_SUB_BROTLI_BINCODE: u8 = 14;
/// requestor/replier pipeline: decompress -> decode (bincode record)
pub const T_REQ_GZIP_BINCODE: u8 = 15;
pub const T_SUB_LZ4_BINCODE: u8 = 16;
/// one `MessageCodec::decode` call; Ok(0) = needs more bytes, Ok(1 + n) = a frame of n payload bytes
pub const T_FRAME_ONCE: u8 = 17;
pub const N_TARGETS: u8 = 18;

pub fn target_name(t: u8) -> &'static str {
    [
        "frame-decode", "unbatch", "string-codec", "bytes-codec", "bincode-record", "bincode-vec-string", "bincode-map", "gzip", "zlib", "zstd", "lz4", "brotli",
        "subscriber-pipeline-plain", "subscriber-pipeline-zstd", "subscriber-pipeline-brotli-bincode", "requestor-pipeline-gzip-bincode", "subscriber-pipeline-lz4-bincode", "frame-decode-once",
    ][t as usize % N_TARGETS as usize]
}
pub fn is_decompressor_target(t: u8) -> bool {
    matches!(t % N_TARGETS, T_GZIP | T_ZLIB | T_ZSTD | T_LZ4 | T_BROTLI | T_SUB_ZSTD | T_SUB_BROTLI_BINCODE | T_REQ_GZIP_BINCODE | T_SUB_LZ4_BINCODE)
}

fn decomp_for(t: u8) -> Option<Box<dyn selium_std::traits::compression::Decompress + Send + Sync>> {
    use selium_std::compression::{brotli::*, deflate::*, lz4::*, zstd::*};
    Some(match t {
        T_GZIP | T_REQ_GZIP_BINCODE => Box::new(DeflateDecomp::gzip()),
        T_ZLIB => Box::new(DeflateDecomp::zlib()),
        T_ZSTD | T_SUB_ZSTD => Box::new(ZstdDecomp),
        T_LZ4 | T_SUB_LZ4_BINCODE => Box::new(Lz4Decomp),
        T_BROTLI | T_SUB_BROTLI_BINCODE => Box::new(BrotliDecomp),
        _ => return None,
    })
}

/// Runs one decoder target on `input` (called inside the worker under catch_unwind).
/// Returns Ok(approximate size of the decoded value) or Err(message).
pub fn run_target(t: u8, input: &[u8]) -> Result<u64, String> {
    use tokio_util::codec::Decoder;
    let t = t % N_TARGETS;
    match t {
        T_FRAMES => {
            let mut codec = selium_protocol::MessageCodec;
            let mut src = BytesMut::from(input);
            let mut total = 0u64;
            loop {
                let before = src.len();
                match codec.decode(&mut src) {
                    Ok(Some(f)) => total += f.get_length().unwrap_or(0) + 9,
                    Ok(None) => return Ok(total),
                    Err(e) => return Err(format!("{e}")),
                }
                if src.len() == before {
                    return Err("decoder made no progress".into());
                }
            }
        }
        T_FRAME_ONCE => {
            let mut codec = selium_protocol::MessageCodec;
            let mut src = BytesMut::from(input);
            match codec.decode(&mut src) {
                Ok(None) => Ok(0),
                Ok(Some(f)) => Ok(1 + f.get_length().unwrap_or(0)),
                Err(e) => Err(format!("{e}")),
            }
        }
        T_BATCH => selium_protocol::utils::decode_message_batch(Bytes::copy_from_slice(input)).norm().map(|v| v.iter().map(|b| b.len() as u64 + 8).sum()),
        T_STRING => StringCodec.decode(&mut BytesMut::from(input)).map(|s| s.len() as u64).map_err(|e| format!("{e}")),
        T_BYTES => BytesCodec.decode(&mut BytesMut::from(input)).map(|s| s.len() as u64).map_err(|e| format!("{e}")),
        T_BINCODE_RECORD => BincodeCodec::<Record>::default().decode(&mut BytesMut::from(input)).map(|r| approx_record(&r)).map_err(|e| format!("{e}")),
        T_BINCODE_STRINGS => BincodeCodec::<Vec<String>>::default().decode(&mut BytesMut::from(input)).map(|v| v.iter().map(|s| s.len() as u64 + 24).sum()).map_err(|e| format!("{e}")),
        T_BINCODE_MAP => BincodeCodec::<HashMap<String, Vec<u8>>>::default().decode(&mut BytesMut::from(input)).map(|v| v.iter().map(|(k, x)| (k.len() + x.len()) as u64 + 48).sum()).map_err(|e| format!("{e}")),
        T_GZIP | T_ZLIB | T_ZSTD | T_LZ4 | T_BROTLI => decomp_for(t).unwrap().decompress(Bytes::copy_from_slice(input)).map(|b| b.len() as u64).map_err(|e| format!("{e}")),
        T_SUB_PLAIN | T_SUB_ZSTD | T_SUB_BROTLI_BINCODE | T_SUB_LZ4_BINCODE => {
            // what Subscriber::poll_next does with a BatchMessage frame
            let mut bytes = Bytes::copy_from_slice(input);
            let mut out = 0u64;
            if let Some(d) = decomp_for(t) {
                bytes = d.decompress(bytes).map_err(|e| format!("decompress: {e}"))?;
                out += bytes.len() as u64;
            }
            let batch = selium_protocol::utils::decode_message_batch(bytes).norm()?;
            let mut first_err = None;
            for m in batch {
                let mut mb = BytesMut::with_capacity(m.len());
                mb.extend_from_slice(&m);
                out += m.len() as u64;
                let r = if matches!(t, T_SUB_BROTLI_BINCODE | T_SUB_LZ4_BINCODE) {
                    BincodeCodec::<Record>::default().decode(&mut mb).map(|r| approx_record(&r))
                } else {
                    StringCodec.decode(&mut mb).map(|s| s.len() as u64)
                };
                match r {
                    Ok(n) => out += n,
                    Err(e) => first_err = first_err.or(Some(format!("{e}"))),
                }
            }
            match first_err {
                None => Ok(out),
                Some(e) => Err(e),
            }
        }
        T_REQ_GZIP_BINCODE => {
            let bytes = decomp_for(t).unwrap().decompress(Bytes::copy_from_slice(input)).map_err(|e| format!("decompress: {e}"))?;
            let mut mb = BytesMut::with_capacity(bytes.len());
            mb.extend_from_slice(&bytes);
            BincodeCodec::<Record>::default().decode(&mut mb).map(|r| approx_record(&r) + bytes.len() as u64).map_err(|e| format!("{e}"))
        }
        _ => Err("no such target".into()),
    }
}

fn approx_record(r: &Record) -> u64 {
    (r.name.len() + r.tags.iter().map(|t| t.len() + 24).sum::<usize>() + r.blob.len() + r.nested.iter().map(|v| v.len() * 2 + 24).sum::<usize>() + 200) as u64
}

// ------------------------------------------------------------------ worker protocol
#[derive(Debug, Clone)]
pub struct Reply {
    /// 0 ok, 1 err, 2 panic
    pub status: u8,
    pub max_single: u64,
    pub peak_delta: u64,
    pub out_len: u64,
    pub msg: String,
}

struct Worker {
    child: Child,
    stdin: ChildStdin,
    stdout: ChildStdout,
}

thread_local! { static WORKER: RefCell<Option<Worker>> = RefCell::new(None); }

fn worker_path() -> std::path::PathBuf {
    let me = std::env::current_exe().expect("current_exe");
    me.parent().unwrap().join("c06worker")
}

fn spawn_worker() -> std::io::Result<Worker> {
    let mut child = Command::new(worker_path()).stdin(Stdio::piped()).stdout(Stdio::piped()).stderr(Stdio::null()).spawn()?;
    let stdin = child.stdin.take().unwrap();
    let stdout = child.stdout.take().unwrap();
    Ok(Worker { child, stdin, stdout })
}

pub enum Verdict {
    Reply(Reply),
    /// the worker died while handling this input: exit status text
    Died(String),
    Harness(String),
}

pub fn ask(target: u8, input: &[u8]) -> Verdict {
    WORKER.with(|w| {
        let mut w = w.borrow_mut();
        if w.is_none() {
            match spawn_worker() {
                Ok(x) => *w = Some(x),
                Err(e) => return Verdict::Harness(format!("cannot spawn worker: {e}")),
            }
        }
        let wk = w.as_mut().unwrap();
        let mut req = Vec::with_capacity(input.len() + 5);
        req.push(target);
        req.extend_from_slice(&(input.len() as u32).to_le_bytes());
        req.extend_from_slice(input);
        let sent = wk.stdin.write_all(&req).and_then(|_| wk.stdin.flush());
        let mut head = [0u8; 1 + 8 + 8 + 8 + 2];
        let got = sent.and_then(|_| wk.stdout.read_exact(&mut head));
        match got {
            Ok(()) => {
                let status = head[0];
                let max_single = u64::from_le_bytes(head[1..9].try_into().unwrap());
                let peak_delta = u64::from_le_bytes(head[9..17].try_into().unwrap());
                let out_len = u64::from_le_bytes(head[17..25].try_into().unwrap());
                let ml = u16::from_le_bytes(head[25..27].try_into().unwrap()) as usize;
                let mut msg = vec![0u8; ml];
                if wk.stdout.read_exact(&mut msg).is_err() {
                    let st = wk.child.wait().map(|s| format!("{s}")).unwrap_or_default();
                    *w = None;
                    return Verdict::Died(st);
                }
                Verdict::Reply(Reply { status, max_single, peak_delta, out_len, msg: String::from_utf8_lossy(&msg).into_owned() })
            }
            Err(_) => {
                let st = wk.child.wait().map(|s| format!("{s}")).unwrap_or_else(|e| format!("wait failed: {e}"));
                *w = None;
                Verdict::Died(st)
            }
        }
    })
}

// ------------------------------------------------------------------ generated inputs
#[derive(Debug, Clone, Serialize, Deserialize, Hash, PartialEq, Eq)]
pub enum Base {
    Random { len: u16, seed: u16 },
    /// a valid encoding for the target, built from these seeds
    Valid { a: u16, b: u16, n: u8 },
}
#[derive(Debug, Clone, Serialize, Deserialize, Hash, PartialEq, Eq)]
pub enum Mut {
    Truncate(u16),
    Flip { pos: u16, bit: u8 },
    SetByte { pos: u16, val: u8 },
    /// overwrite 8 bytes at pos with an adversarial value (big or little endian)
    Len64 { pos: u16, val: u8, be: bool },
    /// the same for a 4-byte field
    Len32 { pos: u16, val: u8, be: bool },
    Splice { from: u16, to: u16, len: u8 },
    Append { len: u8, seed: u8 },
    /// overwrite the n-th 8-byte-aligned word (length/count fields sit on such offsets in
    /// batches and bincode headers)
    Word { idx: u8, val: u8, be: bool },
}
#[derive(Debug, Clone, Serialize, Deserialize, Hash, PartialEq, Eq)]
pub struct Case {
    pub target: u8,
    pub base: Base,
    pub muts: Vec<Mut>,
}

pub const ADV: [u64; 14] = [0, 1, 2, 1 << 16, (1 << 20) - 1, 1 << 20, (1 << 20) + 1, 1 << 31, (1u64 << 32) - 1, 1 << 32, (1 << 32) + 1, 1 << 40, 1 << 63, u64::MAX];

fn rnd_bytes(len: usize, seed: u16) -> Vec<u8> {
    let mut x = seed as u64 | 1 << 17;
    (0..len)
        .map(|_| {
            x = x.wrapping_mul(6364136223846793005).wrapping_add(1442695040888963407);
            (x >> 33) as u8
        })
        .collect()
}

fn sample_record(a: u16, b: u16) -> Record {
    let s = |k: u16| format!("s{}-{}é", k, "x".repeat((k % 7) as usize));
    Record {
        id: a as u64 * 65537 + b as u64,
        name: s(a),
        tags: (0..(b % 4)).map(|i| s(a.wrapping_add(i))).collect(),
        opt: if a % 2 == 0 { Some(b as i32 - 30000) } else { None },
        shape: match a % 4 {
            0 => c14::Shape::Unit,
            1 => c14::Shape::Circle { r: b as u32 },
            2 => c14::Shape::Poly(vec![(a as i16, b as i16); (b % 3) as usize]),
            _ => c14::Shape::Named(s(b), Some(Box::new(c14::Shape::Circle { r: 1 }))),
        },
        blob: rnd_bytes((b % 40) as usize, a),
        nested: vec![vec![a, b]; (a % 3) as usize],
        flag: b % 2 == 0,
        ch: char::from_u32(0x40 + (a as u32 % 500)).unwrap_or('x'),
    }
}

fn comp_for(t: u8, lvl: u16) -> Option<Algo> {
    Some(match t {
        T_GZIP | T_REQ_GZIP_BINCODE => Algo::Gzip((lvl % 10) as u8),
        T_ZLIB => Algo::Zlib((lvl % 10) as u8),
        T_ZSTD | T_SUB_ZSTD => Algo::Zstd((lvl % 19) as u8),
        T_LZ4 | T_SUB_LZ4_BINCODE => Algo::Lz4,
        T_BROTLI | T_SUB_BROTLI_BINCODE => Algo::Brotli { mode: (lvl % 3) as u8, level: (lvl % 10) as u8 },
        _ => return None,
    })
}

pub fn valid_encoding(t: u8, a: u16, b: u16, n: u8) -> Vec<u8> {
    use tokio_util::codec::Encoder;
    let t = t % N_TARGETS;
    let compress = |bytes: Vec<u8>| -> Vec<u8> {
        match comp_for(t, a) {
            Some(al) => c14::make(al).0.compress(Bytes::from(bytes)).unwrap().to_vec(),
            None => bytes,
        }
    };
    match t {
        T_FRAMES => {
            let mut dst = BytesMut::new();
            let mut codec = selium_protocol::MessageCodec;
            for i in 0..(1 + n % 3) {
                let spec = match (a.wrapping_add(i as u16)) % 8 {
                    0 => c05::FSpec::RegPub { ns: "ns-a".into(), t: "tp-b".into(), ret: b as u64, ops: vec![(true, "m".into()), (false, "filter".into())] },
                    1 => c05::FSpec::RegSub { ns: "nsé".into(), t: "t".into(), ret: 1, ops: vec![] },
                    2 => c05::FSpec::RegRep { ns: "abc".into(), t: "def".into() },
                    3 => c05::FSpec::RegReq { ns: "abc".into(), t: "".into() },
                    4 => c05::FSpec::Msg { headers: Some(vec![("req_id".into(), format!("{b}")), ("k".into(), "v".into())]), size: c05::Size::Exact(b as u32 % 300), fill: a as u8 },
                    5 => c05::FSpec::RealBatch { sizes: vec![b % 50, 0, a % 20], fill: b as u8 },
                    6 => c05::FSpec::Err { code: b as u32, size: c05::Size::Exact(a as u32 % 40), fill: 1 },
                    _ => c05::FSpec::Msg { headers: None, size: c05::Size::Exact(a as u32 % 100), fill: b as u8 },
                };
                codec.encode(c05::build(&spec), &mut dst).unwrap();
            }
            dst.to_vec()
        }
        T_BATCH | T_SUB_PLAIN | T_SUB_ZSTD => {
            let msgs: Vec<Bytes> = (0..(n % 6)).map(|i| Bytes::from(format!("msg-{i}-{}", "y".repeat(((a as usize) + i as usize * 7) % 60)).into_bytes())).collect();
            compress(encode_message_batch(msgs).to_vec())
        }
        T_SUB_BROTLI_BINCODE | T_SUB_LZ4_BINCODE => {
            let codec = BincodeCodec::<Record>::default();
            let msgs: Vec<Bytes> = (0..(1 + n % 4)).map(|i| codec.encode(sample_record(a.wrapping_add(i as u16), b)).unwrap()).collect();
            compress(encode_message_batch(msgs).to_vec())
        }
        T_STRING => format!("héllo {a} wörld {}", "z".repeat(b as usize % 80)).into_bytes(),
        T_BYTES => rnd_bytes(b as usize % 200, a),
        T_BINCODE_RECORD | T_REQ_GZIP_BINCODE => compress(BincodeCodec::<Record>::default().encode(sample_record(a, b)).unwrap().to_vec()),
        T_BINCODE_STRINGS => BincodeCodec::<Vec<String>>::default().encode((0..(n % 6)).map(|i| format!("str{i}-{a}")).collect()).unwrap().to_vec(),
        T_BINCODE_MAP => {
            let m: HashMap<String, Vec<u8>> = (0..(n % 5)).map(|i| (format!("key{i}"), rnd_bytes((b as usize + i as usize) % 30, a))).collect();
            BincodeCodec::<HashMap<String, Vec<u8>>>::default().encode(m).unwrap().to_vec()
        }
        T_GZIP | T_ZLIB | T_ZSTD | T_LZ4 | T_BROTLI => {
            let p = c14::Payload { kind: (b % 5) as u8, size: (a as u32 % 3000) * (1 + (n as u32 % 4)), seed: b };
            compress(c14::payload_bytes(&p))
        }
        _ => vec![],
    }
}

pub fn build_input(c: &Case) -> Vec<u8> {
    let mut v = match &c.base {
        Base::Random { len, seed } => rnd_bytes(*len as usize, *seed),
        Base::Valid { a, b, n } => valid_encoding(c.target, *a, *b, *n),
    };
    for m in &c.muts {
        let at = |pos: u16, len: usize| if len == 0 { 0 } else { (pos as usize * len) >> 16 };
        match m {
            Mut::Truncate(f) => {
                let k = at(*f, v.len() + 1);
                v.truncate(k);
            }
            Mut::Flip { pos, bit } => {
                if !v.is_empty() {
                    let i = at(*pos, v.len());
                    v[i] ^= 1 << (bit % 8);
                }
            }
            Mut::SetByte { pos, val } => {
                if !v.is_empty() {
                    let i = at(*pos, v.len());
                    v[i] = *val;
                }
            }
            Mut::Len64 { pos, val, be } => {
                if v.len() >= 8 {
                    let i = at(*pos, v.len() - 7);
                    let x = ADV[*val as usize % ADV.len()];
                    v[i..i + 8].copy_from_slice(&if *be { x.to_be_bytes() } else { x.to_le_bytes() });
                }
            }
            Mut::Word { idx, val, be } => {
                if v.len() >= 8 {
                    let words = v.len() / 8;
                    let i = (*idx as usize % words) * 8;
                    let x = ADV[*val as usize % ADV.len()];
                    v[i..i + 8].copy_from_slice(&if *be { x.to_be_bytes() } else { x.to_le_bytes() });
                }
            }
            Mut::Len32 { pos, val, be } => {
                if v.len() >= 4 {
                    let i = at(*pos, v.len() - 3);
                    let x = ADV[*val as usize % ADV.len()] as u32;
                    v[i..i + 4].copy_from_slice(&if *be { x.to_be_bytes() } else { x.to_le_bytes() });
                }
            }
            Mut::Splice { from, to, len } => {
                if !v.is_empty() {
                    let f = at(*from, v.len());
                    let l = (*len as usize).min(v.len() - f);
                    let chunk: Vec<u8> = v[f..f + l].to_vec();
                    let t = at(*to, v.len() + 1);
                    for (k, b) in chunk.into_iter().enumerate() {
                        v.insert((t + k).min(v.len()), b);
                    }
                }
            }
            Mut::Append { len, seed } => v.extend(rnd_bytes(*len as usize, *seed as u16)),
        }
    }
    v
}

pub const OWN_CAP: u64 = 64 << 20;
pub const LIB_CAP: u64 = 512 << 20;

pub fn eval(c: &Case) -> Outcome {
    crate::core::watchdog::tick();
    let input = build_input(c);
    let t = c.target % N_TARGETS;
    let mutated = !c.muts.is_empty();
    let valid_base = matches!(c.base, Base::Valid { .. });
    match ask(t, &input) {
        Verdict::Harness(e) => Outcome::Inconclusive(e),
        Verdict::Died(st) => Outcome::fail(
            format!("abort:{}", target_name(t)),
            format!("decoder process died ({st}) on a {}-byte input for target {}: abort, or a single allocation request above the 1 GiB hard cap; first bytes {:02x?}", input.len(), target_name(t), &input[..input.len().min(32)]),
        ),
        Verdict::Reply(r) => {
            if r.status == 2 {
                return Outcome::fail(format!("panic:{}:{}", target_name(t), crate::core::panics::normalise(&r.msg)), format!("decoder panicked on a {}-byte input: {}; first bytes {:02x?}", input.len(), r.msg, &input[..input.len().min(32)]));
            }
            let allowance = 32 * (input.len() as u64 + r.out_len);
            let cap = if is_decompressor_target(t) { LIB_CAP } else { OWN_CAP } + allowance;
            if r.max_single > cap || r.peak_delta > cap {
                return Outcome::fail(
                    format!("alloc:{}", target_name(t)),
                    format!("target {}: input {} bytes, decoded value ~{} bytes, but the decoder requested a single allocation of {} bytes / peak live {} bytes (cap {})", target_name(t), input.len(), r.out_len, r.max_single, r.peak_delta, cap),
                );
            }
            if valid_base && !mutated && r.status != 0 {
                return Outcome::fail(format!("valid-input-rejected:{}", target_name(t)), format!("an unmutated valid encoding for {} was rejected: {}", target_name(t), r.msg));
            }
            let mut labels = vec![target_name(t)];
            labels.push(if r.status == 0 { "decoded-ok" } else { "decoder-error" });
            if valid_base && mutated { labels.push("mutated-valid"); }
            if valid_base && !mutated { labels.push("valid-unmutated"); }
            if c.muts.iter().any(|m| matches!(m, Mut::Len64 { .. } | Mut::Len32 { .. } | Mut::Word { .. })) { labels.push("adversarial-length-field"); }
            Outcome::pass(labels, (valid_base && mutated) || r.status == 0)
        }
    }
}

fn mut_strategy() -> BoxedStrategy<Mut> {
    prop_oneof![
        2 => any::<u16>().prop_map(Mut::Truncate),
        3 => (any::<u16>(), 0u8..8).prop_map(|(pos, bit)| Mut::Flip { pos, bit }),
        2 => (any::<u16>(), any::<u8>()).prop_map(|(pos, val)| Mut::SetByte { pos, val }),
        3 => (any::<u16>(), 0u8..14, any::<bool>()).prop_map(|(pos, val, be)| Mut::Len64 { pos, val, be }),
        4 => (0u8..12, 0u8..14, any::<bool>()).prop_map(|(idx, val, be)| Mut::Word { idx, val, be }),
        1 => (any::<u16>(), 0u8..14, any::<bool>()).prop_map(|(pos, val, be)| Mut::Len32 { pos, val, be }),
        1 => (any::<u16>(), any::<u16>(), 1u8..40).prop_map(|(from, to, len)| Mut::Splice { from, to, len }),
        1 => (0u8..40, any::<u8>()).prop_map(|(len, seed)| Mut::Append { len, seed }),
    ]
    .boxed()
}

pub fn strategy(targets: Vec<u8>) -> BoxedStrategy<Case> {
    let base = prop_oneof![
        2 => (prop_oneof![3 => 0u16..24, 3 => 24u16..300, 1 => 300u16..5000], any::<u16>()).prop_map(|(len, seed)| Base::Random { len, seed }),
        7 => (any::<u16>(), any::<u16>(), any::<u8>()).prop_map(|(a, b, n)| Base::Valid { a, b, n }),
    ];
    (prop::sample::select(targets), base, prop_oneof![1 => Just(vec![]), 6 => proptest::collection::vec(mut_strategy(), 1..4)])
        .prop_map(|(target, base, muts)| Case { target, base, muts })
        .boxed()
}

pub fn run(ctx: &mut Ctx) {
    ctx.rule = "for each decoder target (frame decoding to exhaustion, unbatching, string/bytes/bincode codecs for three value types, the five decompressors, and the subscriber / requestor pipelines decompress->unbatch->decode): random byte strings of many lengths, and valid encodings (kept unmutated in 1/7 of the cases: these must decode) that are truncated, bit-flipped, spliced, extended, and have 8/4-byte fields overwritten with adversarial values {0,1,2,2^16,2^20+-1,2^31,2^32+-1,2^40,2^63,u64::MAX} in either endianness; executed in a child process with a counting allocator; oracle: the process survives, no panic, no single allocation request and no peak live memory above 64 MiB (Selium's own decoders) / 512 MiB (pipelines containing a decompression library) + 32*(input+decoded size); non-trivial = a mutation of a valid encoding, or an input that decodes successfully; distinct by case hash".into();
    ctx.assumptions.push("'memory unrelated to input/output size' is operationalised by the two stated caps; a single request above 1 GiB terminates the worker and is reported as a violation".into());
    ctx.assumptions.push("decompression output proportional to what the stream encodes is allowed (value it decodes to)".into());
    if !worker_path().exists() {
        ctx.inconclusive(format!("worker binary {} missing", worker_path().display()));
        return;
    }
    let own: Vec<u8> = vec![T_FRAMES, T_BATCH, T_STRING, T_BYTES, T_BINCODE_RECORD, T_BINCODE_STRINGS, T_BINCODE_MAP, T_SUB_PLAIN];
    let lib_fast: Vec<u8> = vec![T_GZIP, T_ZLIB, T_ZSTD, T_LZ4, T_SUB_ZSTD, T_REQ_GZIP_BINCODE, T_SUB_LZ4_BINCODE];
    let brotli: Vec<u8> = vec![T_BROTLI, T_SUB_BROTLI_BINCODE];
    ctx.search("own-decoders", move || strategy(own.clone()), ctx.tier.pick(60_000, 2_000_000), true, eval);
    if ctx.failed() { return; }
    ctx.search("decompressors", move || strategy(lib_fast.clone()), ctx.tier.pick(30_000, 1_000_000), true, eval);
    if ctx.failed() { return; }
    ctx.search("brotli", move || strategy(brotli.clone()), ctx.tier.pick(25_000, 300_000), true, eval);
    if ctx.failed() { return; }
    if ctx.tier == crate::core::Tier::Thorough || std::env::var("VERIF_FUZZ").is_ok() {
        let jobs = ctx.workers.min(16);
        crate::fuzzrun::campaign(ctx, "libfuzzer-decoders", "decoders", 300_000, jobs, 2048, 1024);
    }
}

pub fn replay(id: &str, case: &serde_json::Value) -> i32 {
    crate::core::replay_case::<Case>(id, case, 1, eval)
}
