//! C05 — wire formats round-trip and reassemble; the 1 MiB limit holds both ways.
use crate::core::{catch, panics, Ctx, Outcome};
use bytes::{Bytes, BytesMut};
use proptest::prelude::*;
use selium_protocol::utils::{decode_message_batch, encode_message_batch};
use selium_protocol::*;
use serde::{Deserialize, Serialize};
use std::collections::HashMap;
use tokio_util::codec::{Decoder, Encoder};

pub const LIMIT: u64 = 1024 * 1024;

#[derive(Debug, Clone, Serialize, Deserialize, Hash, PartialEq, Eq)]
pub enum Size {
    Exact(u32),
    /// payload chosen so that get_length() == LIMIT - k
    LimitMinus(i8),
}

#[derive(Debug, Clone, Serialize, Deserialize, Hash, PartialEq, Eq)]
pub enum FSpec {
    RegPub { ns: String, t: String, ret: u64, ops: Vec<(bool, String)> },
    RegSub { ns: String, t: String, ret: u64, ops: Vec<(bool, String)> },
    RegRep { ns: String, t: String },
    RegReq { ns: String, t: String },
    Msg { headers: Option<Vec<(String, String)>>, size: Size, fill: u8 },
    Batch { size: Size, fill: u8 },
    RealBatch { sizes: Vec<u16>, fill: u8 },
    Err { code: u32, size: Size, fill: u8 },
    Ok,
}

fn fill_bytes(n: usize, fill: u8) -> Bytes {
    let mut v = Vec::with_capacity(n);
    let mut x = fill as u32 | 0x100;
    for i in 0..n {
        if fill % 4 == 0 {
            v.push(fill);
        } else {
            x = x.wrapping_mul(1664525).wrapping_add(1013904223);
            v.push((x >> 24) as u8 ^ (i as u8));
        }
    }
    Bytes::from(v)
}

fn ops_of(v: &[(bool, String)]) -> Vec<Operation> {
    v.iter().map(|(m, s)| if *m { Operation::Map(s.clone()) } else { Operation::Filter(s.clone()) }).collect()
}

pub fn build(spec: &FSpec) -> Frame {
    let sized = |mk: &dyn Fn(Bytes) -> Frame, size: &Size, fill: u8| -> Frame {
        match size {
            Size::Exact(n) => mk(fill_bytes(*n as usize, fill)),
            Size::LimitMinus(k) => {
                let base = mk(Bytes::new()).get_length().unwrap() as i64;
                let n = (LIMIT as i64 - *k as i64 - base).max(0) as usize;
                mk(fill_bytes(n, fill))
            }
        }
    };
    match spec {
        FSpec::RegPub { ns, t, ret, ops } => Frame::RegisterPublisher(PublisherPayload { topic: TopicName::_create_unchecked(ns, t), retention_policy: *ret, operations: ops_of(ops) }),
        FSpec::RegSub { ns, t, ret, ops } => Frame::RegisterSubscriber(SubscriberPayload { topic: TopicName::_create_unchecked(ns, t), retention_policy: *ret, operations: ops_of(ops) }),
        FSpec::RegRep { ns, t } => Frame::RegisterReplier(ReplierPayload { topic: TopicName::_create_unchecked(ns, t) }),
        FSpec::RegReq { ns, t } => Frame::RegisterRequestor(RequestorPayload { topic: TopicName::_create_unchecked(ns, t) }),
        FSpec::Msg { headers, size, fill } => {
            let h: Option<HashMap<String, String>> = headers.as_ref().map(|v| v.iter().cloned().collect());
            sized(&|b| Frame::Message(MessagePayload { headers: h.clone(), message: b }), size, *fill)
        }
        FSpec::Batch { size, fill } => sized(&|b| Frame::BatchMessage(b), size, *fill),
        FSpec::RealBatch { sizes, fill } => {
            let msgs: Vec<Bytes> = sizes.iter().enumerate().map(|(i, n)| fill_bytes(*n as usize, fill.wrapping_add(i as u8))).collect();
            Frame::BatchMessage(encode_message_batch(msgs))
        }
        FSpec::Err { code, size, fill } => sized(&|b| Frame::Error(ErrorPayload { code: *code, message: b }), size, *fill),
        FSpec::Ok => Frame::Ok,
    }
}

#[derive(Debug, Clone, Serialize, Deserialize, Hash, PartialEq, Eq)]
pub struct SeqCase {
    pub frames: Vec<FSpec>,
    /// cut positions as 16-bit fractions of the stream length
    pub cuts: Vec<u16>,
    /// 0 = cuts as given, 1 = one byte at a time (short streams only), 2 = all at once
    pub mode: u8,
    /// extra garbage-free trailing partial frame bytes (prefix of another frame) appended
    pub trailing: u8,
}

pub fn eval_seq(c: &SeqCase) -> Outcome {
    crate::core::watchdog::tick();
    match catch(|| eval_seq_inner(c)) {
        Ok(o) => o,
        Err(p) => Outcome::fail(format!("panic:{}", panics::normalise(&p)), format!("codec panicked: {p}")),
    }
}

fn eval_seq_inner(c: &SeqCase) -> Outcome {
    let frames: Vec<Frame> = c.frames.iter().map(build).collect();
    let mut codec = MessageCodec;
    let mut wire = BytesMut::new();
    let mut near_limit = false;
    for (i, f) in frames.iter().enumerate() {
        let len = match f.get_length() {
            Ok(l) => l,
            Err(e) => return Outcome::fail("get-length-error", format!("frame {i}: get_length failed: {e}")),
        };
        if len + 2 >= LIMIT {
            near_limit = true;
        }
        let before = wire.len();
        if let Err(e) = codec.encode(f.clone(), &mut wire) {
            return Outcome::fail("encode-refused-legal-frame", format!("frame {i} (payload length {len} <= limit) was refused: {e}"));
        }
        let written = wire.len() - before;
        if written as u64 != 9 + len {
            return Outcome::fail("encode-length", format!("frame {i}: encoder appended {written} bytes, expected 9 + get_length() = {}", 9 + len));
        }
        if wire[before..before + 8] != len.to_be_bytes() {
            return Outcome::fail("length-prefix", format!("frame {i}: length prefix {:?} != payload length {len}", &wire[before..before + 8]));
        }
        if wire[before + 8] != f.get_type() {
            return Outcome::fail("type-byte", format!("frame {i}: type byte {} != {}", wire[before + 8], f.get_type()));
        }
        // (a) decoding exactly these bytes (also with more bytes behind them)
        let mut one = BytesMut::from(&wire[before..]);
        one.extend_from_slice(&[0xAB; 5]);
        match codec.decode(&mut one) {
            Ok(Some(g)) => {
                if g != *f {
                    return Outcome::fail("roundtrip-not-equal", format!("frame {i}: decode(encode(f)) != f: {}", diff(&g, f)));
                }
                if one.len() != 5 {
                    return Outcome::fail("consumed-wrong-amount", format!("frame {i}: decoder left {} bytes, expected the 5 trailing ones", one.len()));
                }
            }
            Ok(None) => return Outcome::fail("complete-frame-not-decoded", format!("frame {i}: decoder wants more bytes for a complete frame of payload length {len}")),
            Err(e) => return Outcome::fail("decode-error-on-valid", format!("frame {i}: decoder rejected its own encoding: {e}")),
        }
    }
    // trailing partial frame: a strict prefix of a valid frame must never complete
    let total_frames_len = wire.len();
    if c.trailing > 0 {
        let mut extra = BytesMut::new();
        codec.encode(Frame::Message(MessagePayload { headers: None, message: fill_bytes(40, 3) }), &mut extra).unwrap();
        let k = (c.trailing as usize).min(extra.len() - 1);
        wire.extend_from_slice(&extra[..k]);
    }
    // (b) chunked decoding
    let total = wire.len();
    let mut cut_points: Vec<usize> = match c.mode % 3 {
        1 if total <= 4096 => (1..total).collect(),
        2 => vec![],
        _ => c.cuts.iter().map(|f| (*f as usize * (total + 1)) >> 16).filter(|p| *p > 0 && *p < total).collect(),
    };
    cut_points.sort();
    cut_points.dedup();
    let interior = cut_points.iter().filter(|p| **p < total_frames_len).count();
    let mut src = BytesMut::new();
    let mut out: Vec<Frame> = vec![];
    let mut pos = 0;
    for end in cut_points.iter().copied().chain(std::iter::once(total)) {
        src.extend_from_slice(&wire[pos..end]);
        pos = end;
        loop {
            match codec.decode(&mut src) {
                Ok(Some(f)) => out.push(f),
                Ok(None) => break,
                Err(e) => return Outcome::fail("chunked-decode-error", format!("decoder failed on a valid stream cut at {cut_points:?}: {e}")),
            }
        }
    }
    if out != frames {
        return Outcome::fail("chunked-sequence-differs", format!("stream of {} frames cut at {cut_points:?} decoded to {} frames; first difference at index {:?}", frames.len(), out.len(), out.iter().zip(frames.iter()).position(|(a, b)| a != b)));
    }
    if src.len() != total - total_frames_len {
        return Outcome::fail("chunked-leftover", format!("{} bytes left in the buffer, expected {} (the trailing partial frame)", src.len(), total - total_frames_len));
    }
    let mut labels = vec![];
    if frames.len() >= 2 && interior >= 1 { labels.push("multi-frame-cut-inside"); }
    if near_limit { labels.push("size-within-2-of-limit"); }
    if c.mode % 3 == 1 && total <= 4096 { labels.push("byte-at-a-time"); }
    if cut_points.iter().any(|p| { let mut off = 0usize; frames.iter().any(|f| { let l = 9 + f.get_length().unwrap() as usize; let inside = *p > off && *p < off + 9; off += l; inside }) }) { labels.push("cut-inside-header"); }
    if c.trailing > 0 { labels.push("trailing-partial-frame"); }
    let nontrivial = (frames.len() >= 2 && interior >= 1) || near_limit;
    Outcome::pass(labels, nontrivial)
}

fn diff(a: &Frame, b: &Frame) -> String {
    let (sa, sb) = (format!("{a:?}"), format!("{b:?}"));
    let i = sa.bytes().zip(sb.bytes()).position(|(x, y)| x != y).unwrap_or(sa.len().min(sb.len()));
    let cut = |s: &str| s.chars().skip(i.saturating_sub(20)).take(80).collect::<String>();
    format!("at char {i}: got …{}… want …{}…", cut(&sa), cut(&sb))
}

// ---------------------------------------------------------------- limits
#[derive(Debug, Clone, Serialize, Deserialize, Hash, PartialEq, Eq)]
pub enum LimitCase {
    /// frame whose get_length() is LIMIT + over (over >= 1): encoder must refuse
    EncodeOver { kind: u8, over: u8, with_headers: bool },
    /// 9-byte header with this length field: decoder must refuse iff > LIMIT
    HeaderOnly { len: u64, ty: u8, extra: u8 },
}

pub fn eval_limit(c: &LimitCase) -> Outcome {
    crate::core::watchdog::tick();
    match catch(|| eval_limit_inner(c)) {
        Ok(o) => o,
        Err(p) => Outcome::fail(format!("panic:{}", panics::normalise(&p)), format!("codec panicked: {p}")),
    }
}

fn eval_limit_inner(c: &LimitCase) -> Outcome {
    let mut codec = MessageCodec;
    match c {
        LimitCase::EncodeOver { kind, over, with_headers } => {
            let k = -((*over as i16).clamp(1, 120) as i8);
            let spec = match kind % 3 {
                0 => FSpec::Msg { headers: if *with_headers { Some(vec![("k".into(), "v".into())]) } else { None }, size: Size::LimitMinus(k), fill: 1 },
                1 => FSpec::Batch { size: Size::LimitMinus(k), fill: 2 },
                _ => FSpec::Err { code: 9, size: Size::LimitMinus(k), fill: 3 },
            };
            let f = build(&spec);
            let len = f.get_length().unwrap();
            if len <= LIMIT {
                return Outcome::Inconclusive("generator bug: frame not over the limit".into());
            }
            let mut dst = BytesMut::new();
            dst.extend_from_slice(b"keep");
            match codec.encode(f, &mut dst) {
                Err(_) => {
                    if &dst[..] != b"keep" {
                        return Outcome::fail("refused-encode-wrote-bytes", format!("encoder refused a {len}-byte payload but left {} bytes in the buffer", dst.len() - 4));
                    }
                    Outcome::pass(vec!["encode-over-limit-refused"], true)
                }
                Ok(()) => Outcome::fail("encode-over-limit-accepted", format!("encoder accepted a payload of {len} bytes (> {LIMIT})")),
            }
        }
        LimitCase::HeaderOnly { len, ty, extra } => {
            let mut src = BytesMut::new();
            src.extend_from_slice(&len.to_be_bytes());
            src.extend_from_slice(&[*ty]);
            // a few payload bytes may already have arrived, never the whole payload
            let extra = (*extra as u64).min(len.saturating_sub(1)).min(64) as usize;
            src.extend_from_slice(&vec![0u8; extra]);
            // decoded in the worker process: a decoder that trusts the length field may try to
            // reserve it, which must not take this process down
            use super::c06::{ask, Verdict, T_FRAME_ONCE};
            let r = match ask(T_FRAME_ONCE, &src) {
                Verdict::Harness(e) => return Outcome::Inconclusive(e),
                Verdict::Died(st) => {
                    return Outcome::fail("decode-header-aborts", format!("a bare 9-byte header with length field {len} (+{extra} payload bytes) killed the decoding process ({st}): abort or a single allocation request above 1 GiB"));
                }
                Verdict::Reply(r) => r,
            };
            if r.status == 2 {
                return Outcome::fail(format!("panic:{}", panics::normalise(&r.msg)), format!("decoder panicked on a bare header with length field {len}: {}", r.msg));
            }
            if r.max_single > 64 * LIMIT {
                return Outcome::fail("decode-reserve-excessive", format!("decoder requested a single allocation of {} bytes for a header announcing {len} bytes", r.max_single));
            }
            let (is_err, is_none, is_some) = (r.status == 1, r.status == 0 && r.out_len == 0, r.status == 0 && r.out_len > 0);
            if *len > LIMIT {
                if is_err {
                    Outcome::pass(vec!["decode-over-limit-header-refused"], true)
                } else if is_none {
                    Outcome::fail("decode-over-limit-buffers", format!("length prefix {len} > {LIMIT}: the decoder asked for more bytes instead of refusing"))
                } else {
                    Outcome::fail("decode-over-limit-yields", format!("length prefix {len} > {LIMIT} decoded to a frame"))
                }
            } else if is_none {
                Outcome::pass(vec!["header-within-limit-waits"], *len + 2 >= LIMIT)
            } else if is_some && *len == 0 {
                Outcome::pass(vec!["empty-payload-frame"], false)
            } else if is_err && *len == 0 {
                Outcome::pass(vec!["empty-payload-rejected-by-type"], false)
            } else if is_err && *ty > 7 {
                Outcome::pass(vec!["unknown-type-rejected-early"], false)
            } else if is_some {
                Outcome::fail("incomplete-frame-decoded", format!("only {extra} of {len} payload bytes present, decoder yielded a frame"))
            } else {
                Outcome::fail("decode-within-limit-refused", format!("length prefix {len} <= {LIMIT} refused before the payload arrived: {}", r.msg))
            }
        }
    }
}

// ---------------------------------------------------------------- batches
#[derive(Debug, Clone, Serialize, Deserialize, Hash, PartialEq, Eq)]
pub struct BatchCase {
    pub sizes: Vec<u32>,
    pub fill: u8,
}

/// adapter: `decode_message_batch` may return `Vec<Bytes>` or `Result<Vec<Bytes>, _>`
pub trait BatchResult {
    fn norm(self) -> Result<Vec<Bytes>, String>;
}
impl BatchResult for Vec<Bytes> {
    fn norm(self) -> Result<Vec<Bytes>, String> {
        Ok(self)
    }
}
impl<E: std::fmt::Debug> BatchResult for Result<Vec<Bytes>, E> {
    fn norm(self) -> Result<Vec<Bytes>, String> {
        self.map_err(|e| format!("{e:?}"))
    }
}

pub fn eval_batch(c: &BatchCase) -> Outcome {
    crate::core::watchdog::tick();
    let msgs: Vec<Bytes> = c.sizes.iter().enumerate().map(|(i, n)| fill_bytes(*n as usize, c.fill.wrapping_add(i as u8))).collect();
    let m2 = msgs.clone();
    let r = catch(move || {
        let enc = encode_message_batch(m2);
        (enc.len(), decode_message_batch(enc).norm())
    });
    match r {
        Err(p) => Outcome::fail(format!("panic:{}", panics::normalise(&p)), format!("batch helpers panicked: {p}")),
        Ok((_, Err(e))) => Outcome::fail("batch-decode-error", format!("decode_message_batch rejected the encoding of {} messages: {e}", msgs.len())),
        Ok((n, Ok(back))) => {
            let want = 8 + msgs.iter().map(|m| 8 + m.len()).sum::<usize>();
            if n != want {
                return Outcome::fail("batch-encoding-size", format!("encoding of {} messages is {n} bytes, expected {want}", msgs.len()));
            }
            if back != msgs {
                return Outcome::fail("batch-roundtrip", format!("unbatching returned {} messages (sizes {:?}), expected {} (sizes {:?})", back.len(), back.iter().map(|b| b.len()).take(12).collect::<Vec<_>>(), msgs.len(), c.sizes.iter().take(12).collect::<Vec<_>>()));
            }
            let mut l = vec![];
            if msgs.is_empty() { l.push("empty-batch"); }
            if msgs.iter().any(|m| m.is_empty()) { l.push("empty-message-in-batch"); }
            Outcome::pass(l, msgs.len() >= 2)
        }
    }
}

// ---------------------------------------------------------------- strategies
fn name_part() -> BoxedStrategy<String> {
    prop_oneof![
        3 => "[a-z0-9_-]{3,12}",
        2 => ".{0,12}",
        1 => Just(String::new()),
        1 => "[a-zA-Z0-9_-]{64}",
    ]
    .boxed()
}
fn ops_strategy() -> BoxedStrategy<Vec<(bool, String)>> {
    proptest::collection::vec((any::<bool>(), ".{0,20}"), 0..5).boxed()
}
fn small_size() -> BoxedStrategy<Size> {
    prop_oneof![
        6 => (0u32..64).prop_map(Size::Exact),
        2 => (900u32..1200).prop_map(Size::Exact),
        1 => (60_000u32..70_000).prop_map(Size::Exact),
    ]
    .boxed()
}
fn any_size() -> BoxedStrategy<Size> {
    prop_oneof![
        12 => small_size(),
        1 => (0i8..=2).prop_map(Size::LimitMinus),
    ]
    .boxed()
}
fn headers_strategy() -> BoxedStrategy<Option<Vec<(String, String)>>> {
    prop_oneof![
        2 => Just(None),
        1 => Just(Some(vec![])),
        3 => proptest::collection::vec((".{0,10}", ".{0,16}"), 1..5).prop_map(|v| {
            // keys must be distinct for map equality to be a fair comparison
            let mut seen = std::collections::HashSet::new();
            Some(v.into_iter().filter(|(k, _)| seen.insert(k.clone())).collect())
        }),
    ]
    .boxed()
}
pub fn fspec() -> BoxedStrategy<FSpec> {
    prop_oneof![
        2 => (name_part(), name_part(), any::<u64>(), ops_strategy()).prop_map(|(ns, t, ret, ops)| FSpec::RegPub { ns, t, ret, ops }),
        2 => (name_part(), name_part(), any::<u64>(), ops_strategy()).prop_map(|(ns, t, ret, ops)| FSpec::RegSub { ns, t, ret, ops }),
        1 => (name_part(), name_part()).prop_map(|(ns, t)| FSpec::RegRep { ns, t }),
        1 => (name_part(), name_part()).prop_map(|(ns, t)| FSpec::RegReq { ns, t }),
        6 => (headers_strategy(), any_size(), any::<u8>()).prop_map(|(headers, size, fill)| FSpec::Msg { headers, size, fill }),
        2 => (any_size(), any::<u8>()).prop_map(|(size, fill)| FSpec::Batch { size, fill }),
        2 => (proptest::collection::vec(0u16..300, 0..20), any::<u8>()).prop_map(|(sizes, fill)| FSpec::RealBatch { sizes, fill }),
        2 => (any::<u32>(), any_size(), any::<u8>()).prop_map(|(code, size, fill)| FSpec::Err { code, size, fill }),
        1 => Just(FSpec::Ok),
    ]
    .boxed()
}
pub fn seq_strategy() -> BoxedStrategy<SeqCase> {
    (proptest::collection::vec(fspec(), 1..8), proptest::collection::vec(any::<u16>(), 0..10), 0u8..6, prop_oneof![3 => Just(0u8), 1 => 1u8..48])
        .prop_map(|(frames, cuts, mode, trailing)| SeqCase { frames, cuts, mode: if mode >= 3 { 0 } else { mode }, trailing })
        .boxed()
}
pub fn limit_strategy() -> BoxedStrategy<LimitCase> {
    prop_oneof![
        1 => (0u8..3, 1u8..120, any::<bool>()).prop_map(|(kind, over, with_headers)| LimitCase::EncodeOver { kind, over, with_headers }),
        6 => (prop_oneof![
                3 => (LIMIT - 3)..(LIMIT + 4),
                2 => prop::sample::select(vec![0u64, 1, 1 << 16, 1 << 21, 1 << 31, (1 << 32) - 1, 1 << 32, 1 << 40, 1 << 63, u64::MAX]),
                2 => any::<u64>(),
                1 => 0u64..LIMIT,
             ], any::<u8>(), any::<u8>()).prop_map(|(len, ty, extra)| LimitCase::HeaderOnly { len, ty, extra }),
    ]
    .boxed()
}
pub fn batch_strategy() -> BoxedStrategy<BatchCase> {
    (
        prop_oneof![
            6 => proptest::collection::vec(prop_oneof![4 => 0u32..64, 2 => 64u32..4096, 1 => Just(0u32)], 0..50),
            1 => (proptest::collection::vec(0u32..4096, 0..10), 100_000u32..400_000).prop_map(|(mut v, big)| { v.push(big); v }),
        ],
        any::<u8>(),
    )
        .prop_map(|(sizes, fill)| BatchCase { sizes, fill })
        .boxed()
}

pub fn run(ctx: &mut Ctx) {
    ctx.rule = "frame sequences (1-7 frames of all eight kinds; topics from arbitrary strings via _create_unchecked, any u64 retention, 0-4 operations, header maps None/empty/1-4 arbitrary Unicode entries, payload sizes 0-64, ~1 KiB, ~64 KiB and exactly limit-2..limit computed from get_length(); arbitrary and real batches) concatenated, optionally followed by a strict prefix of another frame, and cut at generated points (incl. inside the 9-byte header, one byte at a time, all at once); plus over-limit frames for the encoder, bare 9-byte headers with adversarial length fields for the decoder, and message lists for the batch helpers; non-trivial = a sequence of >=2 frames cut at >=1 interior point, or a size within 2 bytes of the limit, or (batch) >=2 messages; distinct by case hash".into();
    ctx.assumptions.push("sizes far beyond the limit are represented by length fields only, not materialised".into());
    ctx.search("frames-chunked", seq_strategy, ctx.tier.pick(40_000, 600_000), true, eval_seq);
    if ctx.failed() { return; }
    ctx.search("limits", limit_strategy, ctx.tier.pick(100_000, 2_000_000), true, eval_limit);
    if ctx.failed() { return; }
    ctx.search("batch", batch_strategy, ctx.tier.pick(60_000, 1_000_000), true, eval_batch);
    if ctx.failed() { return; }
    if ctx.tier == crate::core::Tier::Thorough || std::env::var("VERIF_FUZZ").is_ok() {
        let jobs = ctx.workers.min(16);
        crate::fuzzrun::campaign(ctx, "libfuzzer-wire", "wire", 400_000, jobs, 4096, 64);
    }
}

pub fn replay(id: &str, leg: &str, case: &serde_json::Value) -> i32 {
    match leg {
        "frames-chunked" => crate::core::replay_case::<SeqCase>(id, case, 1, eval_seq),
        "limits" => crate::core::replay_case::<LimitCase>(id, case, 1, eval_limit),
        "batch" => crate::core::replay_case::<BatchCase>(id, case, 1, eval_batch),
        _ => 2,
    }
}
