//! World C: the real server, the real client library and raw wire peers over loopback
//! QUIC inside one process.
use clap::Parser;
use futures::{SinkExt, StreamExt};
use selium_protocol::{BiStream, Frame};
use selium_server::{args::UserArgs, server::Server};
use std::net::SocketAddr;
use std::path::{Path, PathBuf};
use std::sync::Arc;
use std::time::Duration;

pub mod c01n;
pub mod c02n;
pub mod c03;
pub mod c04;
pub mod c06n;
pub mod c07s;
pub mod c09n;
pub mod c10c;
pub mod c01f;
pub mod c11;
pub mod c12;
pub mod c12r;
pub mod c15;
pub mod c16n;
pub mod c17;
pub mod fake;

/// One set of certificates as produced by the bundled generator
#[derive(Clone, Debug)]
pub struct Certs {
    pub dir: PathBuf,
}
impl Certs {
    pub fn generate(dir: &Path) -> anyhow::Result<Self> {
        Self::generate_opts(dir, false, 1)
    }
    /// `times` > 1: the generator is run again and again over the same directory (the files
    /// of the earlier set are overwritten, as when certificates are renewed in place)
    pub fn generate_opts(dir: &Path, no_expiry: bool, times: usize) -> anyhow::Result<Self> {
        let mut last = None;
        for _ in 0..times.max(1) {
            last = Some(Self::generate_once(dir, no_expiry)?);
        }
        Ok(last.unwrap())
    }
    fn generate_once(dir: &Path, no_expiry: bool) -> anyhow::Result<Self> {
        use selium_tools::commands::gen_certs;
        let client = dir.join("client");
        let server = dir.join("server");
        // the generator prints progress to stdout; that is fine
        let args = selium_tools::cli::GenCertsArgs { server_out_path: server, client_out_path: client, no_expiry };
        use selium_tools::traits::CommandRunner;
        gen_certs::GenCertsRunner::from(args).run()?;
        Ok(Certs { dir: dir.to_path_buf() })
    }
    pub fn p(&self, rel: &str) -> String {
        self.dir.join(rel).to_string_lossy().into_owned()
    }
    pub fn client_ca(&self) -> String { self.p("client/ca.der") }
    pub fn client_cert(&self) -> String { self.p("client/localhost.der") }
    pub fn client_key(&self) -> String { self.p("client/localhost.key.der") }
    pub fn server_ca(&self) -> String { self.p("server/ca.der") }
    pub fn server_cert(&self) -> String { self.p("server/localhost.der") }
    pub fn server_key(&self) -> String { self.p("server/localhost.key.der") }
}

pub struct WorkDir(pub PathBuf);
impl WorkDir {
    pub fn new() -> Self {
        let p = Path::new(crate::core::VERIF_DIR).join("work").join(format!("{}", std::process::id()));
        let _ = std::fs::create_dir_all(&p);
        WorkDir(p)
    }
}
impl Drop for WorkDir {
    fn drop(&mut self) {
        let _ = std::fs::remove_dir_all(&self.0);
    }
}

pub struct TestServer {
    pub addr: SocketAddr,
    task: tokio::task::JoinHandle<()>,
}
impl TestServer {
    /// must be called inside the runtime
    pub fn start(certs: &Certs) -> anyhow::Result<Self> {
        Self::start_with(&certs.server_ca(), &certs.server_cert(), &certs.server_key())
    }
    pub fn start_with(ca: &str, cert: &str, key: &str) -> anyhow::Result<Self> {
        let args = UserArgs::parse_from(["selium-server", "--bind-addr", "127.0.0.1:0", "--cert", cert, "--key", key, "--ca", ca, "--max-idle-timeout", "30000"]);
        let server = Server::try_from(args)?;
        let addr = server.addr()?;
        let task = tokio::spawn(async move {
            let _ = server.listen().await;
        });
        Ok(TestServer { addr, task })
    }
}
impl Drop for TestServer {
    fn drop(&mut self) {
        self.task.abort();
    }
}

pub async fn client(addr: SocketAddr, certs: &Certs) -> Result<selium::Client, String> {
    client_with(addr, certs, None).await
}
pub async fn client_with(addr: SocketAddr, certs: &Certs, backoff: Option<selium::keep_alive::BackoffStrategy>) -> Result<selium::Client, String> {
    let mut b = selium::custom().keep_alive(5_000u64).map_err(|e| e.to_string())?;
    if let Some(bs) = backoff {
        b = b.backoff_strategy(bs);
    }
    b.endpoint(&addr.to_string())
        .with_certificate_authority(certs.client_ca())
        .map_err(|e| e.to_string())?
        .with_cert_and_key(certs.client_cert(), certs.client_key())
        .map_err(|e| e.to_string())?
        .connect()
        .await
        .map_err(|e| e.to_string())
}

/// identity used by a raw peer
pub struct RawIdentity {
    pub ca_der: Vec<u8>,
    /// None = no client certificate at all
    pub cert_key: Option<(Vec<u8>, Vec<u8>)>,
}
impl RawIdentity {
    pub fn from_certs(c: &Certs) -> std::io::Result<Self> {
        Ok(RawIdentity { ca_der: std::fs::read(c.client_ca())?, cert_key: Some((std::fs::read(c.client_cert())?, std::fs::read(c.client_key())?)) })
    }
}

pub async fn raw_connect(addr: SocketAddr, id: &RawIdentity) -> Result<quinn::Connection, String> {
    raw_connect_opt(addr, id, None).await
}
/// like `raw_connect`, with a small connection-level receive window
pub async fn raw_connect_window(addr: SocketAddr, id: &RawIdentity, window: u32) -> Result<quinn::Connection, String> {
    raw_connect_opt(addr, id, Some(window)).await
}
async fn raw_connect_opt(addr: SocketAddr, id: &RawIdentity, window: Option<u32>) -> Result<quinn::Connection, String> {
    let mut roots = rustls::RootCertStore::empty();
    roots.add(&rustls::Certificate(id.ca_der.clone())).map_err(|e| e.to_string())?;
    let b = rustls::ClientConfig::builder().with_safe_defaults().with_root_certificates(roots);
    let mut crypto = match &id.cert_key {
        Some((c, k)) => b.with_client_auth_cert(vec![rustls::Certificate(c.clone())], rustls::PrivateKey(k.clone())).map_err(|e| e.to_string())?,
        None => b.with_no_client_auth(),
    };
    crypto.alpn_protocols = vec![b"hq-29".to_vec()];
    let mut ep = quinn::Endpoint::client("127.0.0.1:0".parse().unwrap()).map_err(|e| e.to_string())?;
    let mut cfg = quinn::ClientConfig::new(Arc::new(crypto));
    let mut tc = quinn::TransportConfig::default();
    tc.keep_alive_interval(Some(Duration::from_secs(5)));
    if let Some(w) = window {
        tc.receive_window(quinn::VarInt::from_u32(w));
    }
    cfg.transport_config(Arc::new(tc));
    ep.set_default_client_config(cfg);
    let connecting = ep.connect(addr, "localhost").map_err(|e| e.to_string())?;
    match tokio::time::timeout(Duration::from_secs(10), connecting).await {
        Ok(Ok(c)) => Ok(c),
        Ok(Err(e)) => Err(e.to_string()),
        Err(_) => Err("connect timed out".into()),
    }
}

#[derive(Debug)]
pub enum FirstReply {
    Frame(Frame),
    /// stream ended / reset / connection lost without a frame
    Ended(String),
    /// nothing within the deadline
    Silent,
}

/// Opens a stream, sends `first`, waits for the first reply frame
pub async fn raw_open(conn: &quinn::Connection, first: Frame, wait: Duration) -> Result<(BiStream, FirstReply), String> {
    let bi = tokio::time::timeout(Duration::from_secs(10), conn.open_bi()).await.map_err(|_| "open_bi timed out (stream credit exhausted?)".to_string())?.map_err(|e| e.to_string())?;
    let mut s = BiStream::from(bi);
    s.send(first).await.map_err(|e| format!("send first frame: {e}"))?;
    let r = match tokio::time::timeout(wait, s.next()).await {
        Ok(Some(Ok(f))) => FirstReply::Frame(f),
        Ok(Some(Err(e))) => FirstReply::Ended(e.to_string()),
        Ok(None) => FirstReply::Ended("end of stream".into()),
        Err(_) => FirstReply::Silent,
    };
    Ok((s, r))
}

pub fn topic(ns: &str, t: &str) -> selium_protocol::TopicName {
    selium_protocol::TopicName::_create_unchecked(ns, t)
}
pub fn reg_pub(ns: &str, t: &str) -> Frame {
    Frame::RegisterPublisher(selium_protocol::PublisherPayload { topic: topic(ns, t), retention_policy: 0, operations: vec![] })
}
pub fn reg_sub(ns: &str, t: &str) -> Frame {
    Frame::RegisterSubscriber(selium_protocol::SubscriberPayload { topic: topic(ns, t), retention_policy: 0, operations: vec![] })
}
pub fn reg_rep(ns: &str, t: &str) -> Frame {
    Frame::RegisterReplier(selium_protocol::ReplierPayload { topic: topic(ns, t) })
}
pub fn reg_req(ns: &str, t: &str) -> Frame {
    Frame::RegisterRequestor(selium_protocol::RequestorPayload { topic: topic(ns, t) })
}
pub fn msg(body: impl Into<bytes::Bytes>) -> Frame {
    Frame::Message(selium_protocol::MessagePayload { headers: None, message: body.into() })
}

/// Shared environment of a world-C check process
pub struct Env {
    pub rt: tokio::runtime::Runtime,
    pub work: WorkDir,
    pub certs: Certs,
}
impl Env {
    pub fn new() -> anyhow::Result<Self> {
        let rt = tokio::runtime::Builder::new_multi_thread().worker_threads(8).enable_all().build()?;
        let work = WorkDir::new();
        let certs = Certs::generate(&work.0.join("certs"))?;
        Ok(Env { rt, work, certs })
    }
}

/// unique topic suffix per case (process-wide counter)
pub fn fresh_id() -> u64 {
    use std::sync::atomic::{AtomicU64, Ordering};
    static N: AtomicU64 = AtomicU64::new(0);
    N.fetch_add(1, Ordering::Relaxed)
}

// ------------------------------------------------------------------ raw peer actor
use tokio::sync::mpsc;

#[derive(Debug)]
pub enum PeerEv {
    Frame(Frame),
    Ended(String),
}
/// A raw wire peer whose stream is owned by a background task: frames it receives are
/// forwarded (so it never back-pressures the server), frames to send are queued.
pub struct Peer {
    pub out: mpsc::UnboundedSender<Frame>,
    pub inc: mpsc::UnboundedReceiver<PeerEv>,
    pub task: tokio::task::JoinHandle<()>,
    pub received: Vec<Frame>,
    pub ended: Option<String>,
}
impl Drop for Peer {
    fn drop(&mut self) {
        self.task.abort();
    }
}
impl Peer {
    /// `echo`: answer every Message frame with the same headers and "re:"+body (a
    /// well-behaved replier)
    pub fn spawn(mut s: BiStream, echo: bool) -> Peer {
        let (out, mut out_rx) = mpsc::unbounded_channel::<Frame>();
        let (inc_tx, inc) = mpsc::unbounded_channel::<PeerEv>();
        let task = tokio::spawn(async move {
            // the server drops the half of a stream it does not use (e.g. its send half for
            // a publisher), so the read side may end while the write side stays usable
            let mut read_open = true;
            loop {
                tokio::select! {
                    f = out_rx.recv() => {
                        match f {
                            Some(f) => { if let Err(e) = s.send(f).await { let _ = inc_tx.send(PeerEv::Ended(format!("send failed: {e}"))); } }
                            None => break,
                        }
                    }
                    r = s.next(), if read_open => {
                        match r {
                            Some(Ok(f)) => {
                                if echo {
                                    if let Frame::Message(m) = &f {
                                        let mut b = b"re:".to_vec();
                                        b.extend_from_slice(&m.message[..m.message.len().min(256)]);
                                        let _ = s.send(Frame::Message(selium_protocol::MessagePayload { headers: m.headers.clone(), message: b.into() })).await;
                                    }
                                }
                                let _ = inc_tx.send(PeerEv::Frame(f));
                            }
                            Some(Err(e)) => { let _ = inc_tx.send(PeerEv::Ended(e.to_string())); read_open = false; }
                            None => { let _ = inc_tx.send(PeerEv::Ended("end of stream".into())); read_open = false; }
                        }
                    }
                }
            }
            // keep the stream open until dropped
            std::future::pending::<()>().await;
        });
        Peer { out, inc, task, received: vec![], ended: None }
    }
    pub fn send(&self, f: Frame) {
        let _ = self.out.send(f);
    }
    /// wait until a received frame satisfies `pred` (frames are kept in `received`)
    pub async fn wait_for(&mut self, dl: Duration, pred: impl Fn(&Frame) -> bool) -> bool {
        if self.received.iter().any(&pred) {
            return true;
        }
        let t = tokio::time::Instant::now();
        while t.elapsed() < dl {
            match tokio::time::timeout(dl.saturating_sub(t.elapsed()).max(Duration::from_millis(1)), self.inc.recv()).await {
                Ok(Some(PeerEv::Frame(f))) => {
                    let hit = pred(&f);
                    self.received.push(f);
                    if hit {
                        return true;
                    }
                }
                Ok(Some(PeerEv::Ended(e))) => {
                    self.ended = Some(e);
                    return false;
                }
                Ok(None) => return false,
                Err(_) => return false,
            }
        }
        false
    }
    /// wait until the stream is observed to end (or an Error frame arrives)
    pub async fn wait_end(&mut self, dl: Duration) -> bool {
        if self.ended.is_some() {
            return true;
        }
        let t = tokio::time::Instant::now();
        while t.elapsed() < dl {
            match tokio::time::timeout(dl.saturating_sub(t.elapsed()).max(Duration::from_millis(1)), self.inc.recv()).await {
                Ok(Some(PeerEv::Frame(f))) => self.received.push(f),
                Ok(Some(PeerEv::Ended(e))) => {
                    self.ended = Some(e);
                    return true;
                }
                Ok(None) => return true,
                Err(_) => return false,
            }
        }
        false
    }
    pub fn drain(&mut self) {
        while let Ok(ev) = self.inc.try_recv() {
            match ev {
                PeerEv::Frame(f) => self.received.push(f),
                PeerEv::Ended(e) => self.ended = Some(e),
            }
        }
    }
}

pub fn body_of(f: &Frame) -> Option<&[u8]> {
    match f {
        Frame::Message(p) => Some(&p.message),
        Frame::BatchMessage(b) => Some(b),
        _ => None,
    }
}

/// Sends tagged probe messages from `publ` until `sub` has received one (the server answers
/// Ok before the socket reaches the router, so a single message may precede the
/// subscriber's adoption). Returns false if none arrived within `dl`.
pub async fn pubsub_probe(publ: &Peer, sub: &mut Peer, tag: &str, dl: Duration) -> bool {
    let t = tokio::time::Instant::now();
    let mut k = 0;
    let tagb = tag.as_bytes().to_vec();
    while t.elapsed() < dl {
        k += 1;
        publ.send(msg(format!("{tag}-{k}").into_bytes()));
        let tb = tagb.clone();
        if sub.wait_for(Duration::from_millis(if k < 20 { 25 } else { 200 }), move |f| body_of(f).map_or(false, |b| b.starts_with(&tb))).await {
            return true;
        }
        if sub.ended.is_some() {
            return false;
        }
    }
    false
}

/// One request through `req`, expecting the echo replier's answer. Retries while the
/// requestor/replier registrations settle.
pub async fn reqrep_probe(req: &mut Peer, tag: &str, dl: Duration) -> bool {
    let t = tokio::time::Instant::now();
    let mut k = 0;
    while t.elapsed() < dl {
        k += 1;
        let body = format!("{tag}-{k}");
        let mut h = std::collections::HashMap::new();
        h.insert("req_id".to_string(), format!("{k}"));
        req.send(Frame::Message(selium_protocol::MessagePayload { headers: Some(h), message: body.clone().into_bytes().into() }));
        let want = format!("re:{body}").into_bytes();
        if req.wait_for(Duration::from_millis(if k < 20 { 30 } else { 250 }), move |f| body_of(f) == Some(&want[..])).await {
            return true;
        }
        if req.ended.is_some() {
            return false;
        }
    }
    false
}
