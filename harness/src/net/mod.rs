//! World C: the real server, the real client library and raw wire peers over loopback
//! QUIC inside one process.
use clap::Parser;
use futures::{SinkExt, StreamExt};
use selium_protocol::{BiStream, Frame};
use selium_server::{args::UserArgs, server::Server};
use std::net::SocketAddr;
use std::path::{Path, PathBuf};
use std::sync::Arc;
use std::time::Duration;

pub mod c03;
pub mod c04;
// pub mod c07s;
// pub mod c11;
pub mod c12;
// pub mod c15;
// pub mod c17;
pub mod fake;

/// One set of certificates as produced by the bundled generator
#[derive(Clone, Debug)]
pub struct Certs {
    pub dir: PathBuf,
}
impl Certs {
    pub fn generate(dir: &Path) -> anyhow::Result<Self> {
        use selium_tools::commands::gen_certs;
        let client = dir.join("client");
        let server = dir.join("server");
        // the generator prints progress to stdout; that is fine
        let args = selium_tools::cli::GenCertsArgs { server_out_path: server, client_out_path: client, no_expiry: false };
        use selium_tools::traits::CommandRunner;
        gen_certs::GenCertsRunner::from(args).run()?;
        Ok(Certs { dir: dir.to_path_buf() })
    }
    pub fn p(&self, rel: &str) -> String {
        self.dir.join(rel).to_string_lossy().into_owned()
    }
    pub fn client_ca(&self) -> String { self.p("client/ca.der") }
    pub fn client_cert(&self) -> String { self.p("client/localhost.der") }
    pub fn client_key(&self) -> String { self.p("client/localhost.key.der") }
    pub fn server_ca(&self) -> String { self.p("server/ca.der") }
    pub fn server_cert(&self) -> String { self.p("server/localhost.der") }
    pub fn server_key(&self) -> String { self.p("server/localhost.key.der") }
}

pub struct WorkDir(pub PathBuf);
impl WorkDir {
    pub fn new() -> Self {
        let p = Path::new(crate::core::VERIF_DIR).join("work").join(format!("{}", std::process::id()));
        let _ = std::fs::create_dir_all(&p);
        WorkDir(p)
    }
}
impl Drop for WorkDir {
    fn drop(&mut self) {
        let _ = std::fs::remove_dir_all(&self.0);
    }
}

pub struct TestServer {
    pub addr: SocketAddr,
    task: tokio::task::JoinHandle<()>,
}
impl TestServer {
    /// must be called inside the runtime
    pub fn start(certs: &Certs) -> anyhow::Result<Self> {
        Self::start_with(&certs.server_ca(), &certs.server_cert(), &certs.server_key())
    }
    pub fn start_with(ca: &str, cert: &str, key: &str) -> anyhow::Result<Self> {
        let args = UserArgs::parse_from(["selium-server", "--bind-addr", "127.0.0.1:0", "--cert", cert, "--key", key, "--ca", ca, "--max-idle-timeout", "30000"]);
        let server = Server::try_from(args)?;
        let addr = server.addr()?;
        let task = tokio::spawn(async move {
            let _ = server.listen().await;
        });
        Ok(TestServer { addr, task })
    }
}
impl Drop for TestServer {
    fn drop(&mut self) {
        self.task.abort();
    }
}

pub async fn client(addr: SocketAddr, certs: &Certs) -> Result<selium::Client, String> {
    client_with(addr, certs, None).await
}
pub async fn client_with(addr: SocketAddr, certs: &Certs, backoff: Option<selium::keep_alive::BackoffStrategy>) -> Result<selium::Client, String> {
    let mut b = selium::custom().keep_alive(5_000u64).map_err(|e| e.to_string())?;
    if let Some(bs) = backoff {
        b = b.backoff_strategy(bs);
    }
    b.endpoint(&addr.to_string())
        .with_certificate_authority(certs.client_ca())
        .map_err(|e| e.to_string())?
        .with_cert_and_key(certs.client_cert(), certs.client_key())
        .map_err(|e| e.to_string())?
        .connect()
        .await
        .map_err(|e| e.to_string())
}

/// identity used by a raw peer
pub struct RawIdentity {
    pub ca_der: Vec<u8>,
    /// None = no client certificate at all
    pub cert_key: Option<(Vec<u8>, Vec<u8>)>,
}
impl RawIdentity {
    pub fn from_certs(c: &Certs) -> std::io::Result<Self> {
        Ok(RawIdentity { ca_der: std::fs::read(c.client_ca())?, cert_key: Some((std::fs::read(c.client_cert())?, std::fs::read(c.client_key())?)) })
    }
}

pub async fn raw_connect(addr: SocketAddr, id: &RawIdentity) -> Result<quinn::Connection, String> {
    let mut roots = rustls::RootCertStore::empty();
    roots.add(&rustls::Certificate(id.ca_der.clone())).map_err(|e| e.to_string())?;
    let b = rustls::ClientConfig::builder().with_safe_defaults().with_root_certificates(roots);
    let mut crypto = match &id.cert_key {
        Some((c, k)) => b.with_client_auth_cert(vec![rustls::Certificate(c.clone())], rustls::PrivateKey(k.clone())).map_err(|e| e.to_string())?,
        None => b.with_no_client_auth(),
    };
    crypto.alpn_protocols = vec![b"hq-29".to_vec()];
    let mut ep = quinn::Endpoint::client("127.0.0.1:0".parse().unwrap()).map_err(|e| e.to_string())?;
    let mut cfg = quinn::ClientConfig::new(Arc::new(crypto));
    let mut tc = quinn::TransportConfig::default();
    tc.keep_alive_interval(Some(Duration::from_secs(5)));
    cfg.transport_config(Arc::new(tc));
    ep.set_default_client_config(cfg);
    let connecting = ep.connect(addr, "localhost").map_err(|e| e.to_string())?;
    match tokio::time::timeout(Duration::from_secs(10), connecting).await {
        Ok(Ok(c)) => Ok(c),
        Ok(Err(e)) => Err(e.to_string()),
        Err(_) => Err("connect timed out".into()),
    }
}

#[derive(Debug)]
pub enum FirstReply {
    Frame(Frame),
    /// stream ended / reset / connection lost without a frame
    Ended(String),
    /// nothing within the deadline
    Silent,
}

/// Opens a stream, sends `first`, waits for the first reply frame
pub async fn raw_open(conn: &quinn::Connection, first: Frame, wait: Duration) -> Result<(BiStream, FirstReply), String> {
    let bi = tokio::time::timeout(Duration::from_secs(10), conn.open_bi()).await.map_err(|_| "open_bi timed out (stream credit exhausted?)".to_string())?.map_err(|e| e.to_string())?;
    let mut s = BiStream::from(bi);
    s.send(first).await.map_err(|e| format!("send first frame: {e}"))?;
    let r = match tokio::time::timeout(wait, s.next()).await {
        Ok(Some(Ok(f))) => FirstReply::Frame(f),
        Ok(Some(Err(e))) => FirstReply::Ended(e.to_string()),
        Ok(None) => FirstReply::Ended("end of stream".into()),
        Err(_) => FirstReply::Silent,
    };
    Ok((s, r))
}

pub fn topic(ns: &str, t: &str) -> selium_protocol::TopicName {
    selium_protocol::TopicName::_create_unchecked(ns, t)
}
pub fn reg_pub(ns: &str, t: &str) -> Frame {
    Frame::RegisterPublisher(selium_protocol::PublisherPayload { topic: topic(ns, t), retention_policy: 0, operations: vec![] })
}
pub fn reg_sub(ns: &str, t: &str) -> Frame {
    Frame::RegisterSubscriber(selium_protocol::SubscriberPayload { topic: topic(ns, t), retention_policy: 0, operations: vec![] })
}
pub fn reg_rep(ns: &str, t: &str) -> Frame {
    Frame::RegisterReplier(selium_protocol::ReplierPayload { topic: topic(ns, t) })
}
pub fn reg_req(ns: &str, t: &str) -> Frame {
    Frame::RegisterRequestor(selium_protocol::RequestorPayload { topic: topic(ns, t) })
}
pub fn msg(body: impl Into<bytes::Bytes>) -> Frame {
    Frame::Message(selium_protocol::MessagePayload { headers: None, message: body.into() })
}

/// Shared environment of a world-C check process
pub struct Env {
    pub rt: tokio::runtime::Runtime,
    pub work: WorkDir,
    pub certs: Certs,
}
impl Env {
    pub fn new() -> anyhow::Result<Self> {
        let rt = tokio::runtime::Builder::new_multi_thread().worker_threads(8).enable_all().build()?;
        let work = WorkDir::new();
        let certs = Certs::generate(&work.0.join("certs"))?;
        Ok(Env { rt, work, certs })
    }
}

/// unique topic suffix per case (process-wide counter)
pub fn fresh_id() -> u64 {
    use std::sync::atomic::{AtomicU64, Ordering};
    static N: AtomicU64 = AtomicU64::new(0);
    N.fetch_add(1, Ordering::Relaxed)
}
