//! C01 / C11 — simultaneous *first* registrations on brand-new topics.
//! Several peers (on different connections) register on a topic that does not exist yet at
//! the same moment; every one of them is answered Ok, so every one of them must then really
//! be attached to the one router of that topic: each subscriber receives what each publisher
//! sends, each requestor is answered by the replier.
use super::*;
use crate::core::{Ctx, Outcome};
use proptest::prelude::*;
use serde::{Deserialize, Serialize};
use tokio::sync::Barrier;

#[derive(Debug, Clone, Serialize, Deserialize, Hash, PartialEq, Eq)]
pub struct Case {
    /// population per topic: 0 pub+sub, 1 sub+sub+pub, 2 pub+pub+sub, 3 requestor+replier
    pub shapes: Vec<u8>,
    pub conns: u8,
}

const W: Duration = Duration::from_secs(8);

#[derive(Clone, Copy, PartialEq, Debug)]
enum Role {
    Pub,
    Sub,
    Req,
    Rep,
}

pub async fn run_case(addr: SocketAddr, id: &RawIdentity, c: &Case) -> Outcome {
    let nconn = 2 + (c.conns % 3) as usize;
    let mut conns = vec![];
    for _ in 0..nconn {
        match raw_connect(addr, id).await {
            Ok(c) => conns.push(c),
            Err(e) => return Outcome::Inconclusive(e),
        }
    }
    let ns = "firstns";
    let mut plan: Vec<(usize, String, Role)> = vec![];
    for (ti, sh) in c.shapes.iter().enumerate().take(16) {
        let t = format!("new-{}", fresh_id());
        let roles: &[Role] = match sh % 4 {
            0 => &[Role::Pub, Role::Sub],
            1 => &[Role::Sub, Role::Sub, Role::Pub],
            2 => &[Role::Pub, Role::Pub, Role::Sub],
            _ => &[Role::Req, Role::Rep],
        };
        for r in roles {
            plan.push((ti, t.clone(), *r));
        }
    }
    if plan.is_empty() {
        return Outcome::pass(vec!["empty"], false);
    }
    // all registrations are released at the same moment
    let go = Arc::new(Barrier::new(plan.len()));
    let mut tasks = vec![];
    for (k, (ti, t, role)) in plan.iter().cloned().enumerate() {
        let conn = conns[k % nconn].clone();
        let go = go.clone();
        tasks.push(tokio::spawn(async move {
            let f = match role {
                Role::Pub => reg_pub(ns, &t),
                Role::Sub => reg_sub(ns, &t),
                Role::Req => reg_req(ns, &t),
                Role::Rep => reg_rep(ns, &t),
            };
            go.wait().await;
            (ti, t, role, raw_open(&conn, f, W).await)
        }));
    }
    let mut by_topic: std::collections::BTreeMap<usize, (String, Vec<(Role, Peer)>)> = Default::default();
    for t in tasks {
        let (ti, name, role, r) = match t.await {
            Ok(x) => x,
            Err(e) => return Outcome::Inconclusive(format!("registration task: {e}")),
        };
        match r {
            Ok((s, FirstReply::Frame(Frame::Ok))) => by_topic.entry(ti).or_insert_with(|| (name, vec![])).1.push((role, Peer::spawn(s, role == Role::Rep))),
            Ok((_, other)) => return Outcome::fail("first-registration-not-ok", format!("{role:?} on the new topic {name}: {other:?}")),
            Err(e) => return Outcome::Inconclusive(format!("open: {e}")),
        }
    }
    // every registrant was answered Ok: every one must be attached to the topic's router
    for (_, (name, mut peers)) in by_topic {
        let n = peers.len();
        for i in 0..n {
            if peers[i].0 == Role::Pub {
                for j in 0..n {
                    if peers[j].0 == Role::Sub {
                        let (a, b) = if i < j { let (x, y) = peers.split_at_mut(j); (&x[i].1, &mut y[0].1) } else { let (x, y) = peers.split_at_mut(i); (&y[0].1, &mut x[j].1) };
                        if !pubsub_probe(a, b, &format!("first-{i}-{j}"), W).await {
                            return Outcome::fail(
                                "registered-but-not-attached",
                                format!("topic {name} was created by {n} simultaneous first registrations, all answered Ok; what publisher #{i} sends never reaches subscriber #{j} (they are not attached to the same router)"),
                            );
                        }
                    }
                }
            }
            if peers[i].0 == Role::Req {
                if !reqrep_probe(&mut peers[i].1, &format!("first-{i}"), W).await {
                    return Outcome::fail(
                        "registered-but-not-attached",
                        format!("topic {name} was created by a requestor and a replier registering simultaneously, both answered Ok; the requestor's requests are never answered"),
                    );
                }
            }
        }
    }
    let mut labels = vec!["simultaneous-first-registrations"];
    if c.shapes.iter().take(16).any(|s| s % 4 == 3) { labels.push("req-rep-topic"); }
    if c.shapes.iter().take(16).any(|s| matches!(s % 4, 1 | 2)) { labels.push("three-registrants"); }
    Outcome::pass(labels, c.shapes.len() >= 2)
}

pub fn strategy() -> BoxedStrategy<Case> {
    (proptest::collection::vec(0u8..4, 1..=16), 0u8..3).prop_map(|(shapes, conns)| Case { shapes, conns }).boxed()
}

pub fn run(ctx: &mut Ctx) {
    let env = match Env::new() {
        Ok(e) => e,
        Err(e) => return ctx.inconclusive(format!("environment: {e}")),
    };
    let server = match env.rt.block_on(async { TestServer::start(&env.certs) }) {
        Ok(s) => s,
        Err(e) => return ctx.inconclusive(format!("server start: {e}")),
    };
    let addr = server.addr;
    let id = match RawIdentity::from_certs(&env.certs) {
        Ok(i) => std::sync::Arc::new(i),
        Err(e) => return ctx.inconclusive(format!("certs: {e}")),
    };
    let handle = env.rt.handle().clone();
    let saved = (ctx.workers, ctx.shrink_iters);
    ctx.shrink_iters = 10;
    ctx.workers = ctx.workers.min(4);
    ctx.search("first-registrations-loopback", strategy, ctx.tier.pick(120, 2_000), true, move |c: &Case| {
        crate::core::watchdog::tick();
        match crate::core::catch(|| handle.block_on(run_case(addr, &id, c))) {
            Ok(o) => o,
            Err(p) => Outcome::fail(format!("panic:{}", crate::core::panics::normalise(&p)), format!("panicked: {p}")),
        }
    });
    ctx.workers = saved.0;
    ctx.shrink_iters = saved.1;
    drop(server);
}

pub fn replay(id: &str, case: &serde_json::Value) -> i32 {
    let env = match Env::new() {
        Ok(e) => e,
        Err(e) => {
            eprintln!("environment: {e}");
            return 2;
        }
    };
    let server = env.rt.block_on(async { TestServer::start(&env.certs) }).expect("server");
    let rid = RawIdentity::from_certs(&env.certs).expect("certs");
    let addr = server.addr;
    // a race: the stored case is repeated
    crate::core::replay_case::<Case>(id, case, 40, |c| match crate::core::catch(|| env.rt.block_on(run_case(addr, &rid, c))) { Ok(o) => o, Err(p) => Outcome::fail("panic", p) })
}
