//! C12 — streams re-establish themselves after connection loss, within the retry budget.
//! Real client library against the scripted fake server.
use super::fake::{FakeServer, Verdict};
use super::*;
use crate::core::{Ctx, Outcome};
use proptest::prelude::*;
use selium::keep_alive::BackoffStrategy;
use selium::prelude::*;
use selium::std::codecs::StringCodec;
use serde::{Deserialize, Serialize};
use std::time::Instant;

#[derive(Debug, Clone, Serialize, Deserialize, Hash, PartialEq, Eq)]
pub struct Outage {
    /// number of failing reconnect attempts before one is accepted
    pub fails: u8,
    /// false = registration answered with the retryable error, true = connection dropped
    pub drop_conn: bool,
    /// a non-retryable error frame is the answer after `fails` failing attempts
    pub fatal: bool,
    /// messages / requests exchanged before this outage
    pub traffic_before: u8,
}

#[derive(Debug, Clone, Serialize, Deserialize, Hash, PartialEq, Eq)]
pub struct Case {
    /// 0 publisher, 1 subscriber, 2 requestor, 3 replier
    pub kind: u8,
    pub max_attempts: u8,
    /// 0 constant, 1 linear, 2 exponential(2)
    pub backoff: u8,
    pub step_ms: u8,
    pub cap_ms: Option<u8>,
    pub outages: Vec<Outage>,
    pub retention: u16,
    pub ops: u8,
    pub topic: u8,
    /// the publisher pipelines two 16 KiB items with feed() right after each cut, so the
    /// loss is first noticed in poll_ready (write buffer over its back-pressure boundary)
    #[serde(default)]
    pub big_feed: bool,
    /// requestor: a clone made before the outages is used concurrently with the original
    /// after each recovery (both share one pending-request table)
    #[serde(default)]
    pub clones: bool,
}

async fn wait_until(dl: Duration, mut f: impl FnMut() -> bool) -> bool {
    let t = Instant::now();
    while t.elapsed() < dl {
        if f() {
            return true;
        }
        tokio::time::sleep(Duration::from_millis(2)).await;
    }
    false
}

const HANG: &str = "HANG";

pub async fn run_case(certs: &Certs, c: &Case) -> Outcome {
    match tokio::time::timeout(Duration::from_secs(150), run_inner(certs, c)).await {
        Ok(o) => o,
        Err(_) => Outcome::Inconclusive("case exceeded 150 s".into()),
    }
}

async fn run_inner(certs: &Certs, c: &Case) -> Outcome {
    let server = match FakeServer::start(certs) {
        Ok(s) => s,
        Err(e) => return Outcome::Inconclusive(format!("fake server: {e}")),
    };
    let sh = server.sh.clone();
    let m = (c.max_attempts % 5) as u32;
    let step = Duration::from_millis(1 + (c.step_ms % 5) as u64);
    let mut bs = match c.backoff % 3 {
        0 => BackoffStrategy::constant(),
        1 => BackoffStrategy::linear(),
        _ => BackoffStrategy::exponential(2),
    }
    .with_step(step)
    .with_max_attempts(m);
    if let Some(cap) = c.cap_ms {
        bs = bs.with_max_duration(Duration::from_millis(1 + (cap % 8) as u64));
    }
    let client = match client_with(server.addr, certs, Some(bs)).await {
        Ok(c) => c,
        Err(e) => return Outcome::Inconclusive(format!("client connect: {e}")),
    };
    let topic = ["/c12ns/topic", "/abc/def", "/with-dash_us/T0pic"][(c.topic % 3) as usize];
    let kind = c.kind % 4;
    let mut publisher = None;
    let mut subscriber = None;
    let mut requestor = None;
    let mut requestor_clone = None;
    let mut replier_task = None;
    match kind {
        0 => {
            let mut b = client.publisher(topic).with_encoder(StringCodec);
            b = match b.retain(c.retention as u64) { Ok(b) => b, Err(e) => return Outcome::Inconclusive(format!("retain: {e}")) };
            if c.ops & 1 != 0 { b = b.map("/mod/map.wasm"); }
            if c.ops & 2 != 0 { b = b.filter("/mod/filter.wasm"); }
            match b.open().await { Ok(p) => publisher = Some(p), Err(e) => return Outcome::fail("open-failed", format!("{e}")) }
        }
        1 => {
            let mut b = client.subscriber(topic).with_decoder(StringCodec);
            b = match b.retain(c.retention as u64) { Ok(b) => b, Err(e) => return Outcome::Inconclusive(format!("retain: {e}")) };
            if c.ops & 1 != 0 { b = b.map("/mod/map.wasm"); }
            if c.ops & 2 != 0 { b = b.filter("/mod/filter.wasm"); }
            match b.open().await { Ok(s) => subscriber = Some(s), Err(e) => return Outcome::fail("open-failed", format!("{e}")) }
        }
        2 => {
            let b = client.requestor(topic).with_request_encoder(StringCodec).with_reply_decoder(StringCodec).with_request_timeout(Duration::from_millis(300));
            match b { Ok(b) => match b.open().await { Ok(r) => { if c.clones { requestor_clone = Some(r.clone()); } requestor = Some(r) }, Err(e) => return Outcome::fail("open-failed", format!("{e}")) }, Err(e) => return Outcome::Inconclusive(format!("{e}")) }
        }
        _ => {
            let rep = client.replier(topic).with_request_decoder(StringCodec).with_reply_encoder(StringCodec).with_handler(|s: String| async move { Ok::<_, String>(format!("ans:{s}")) }).open().await;
            match rep {
                Ok(rep) => replier_task = Some(tokio::spawn(async move { let mut rep = rep; rep.listen().await.map_err(|e| e.to_string()) })),
                Err(e) => return Outcome::fail("open-failed", format!("{e}")),
            }
        }
    }
    let first_reg = match sh.lock().unwrap().regs.first() { Some((f, _)) => f.clone(), None => return Outcome::Inconclusive("no registration seen".into()) };
    let mut seq = 0u64;
    let mut labels: Vec<&'static str> = vec![["publisher", "subscriber", "requestor", "replier"][kind as usize]];
    let mut survived = 0usize;
    let mut any_failing_attempt = false;
    let mut exhausted = false;
    let mut fatal_seen = false;

    for (oi, o) in c.outages.iter().enumerate() {
        // ---- traffic before the outage: the stream must be working now ----
        for _ in 0..(o.traffic_before % 3) {
            seq += 1;
            match kind {
                0 => {
                    let p = publisher.as_mut().unwrap();
                    if let Err(e) = p.send(format!("pre{oi}-{seq}")).await {
                        return Outcome::fail("healthy-stream-error", format!("publisher send between outages failed: {e}"));
                    }
                }
                2 => {
                    let q = requestor.as_mut().unwrap();
                    match q.request(format!("pre{oi}-{seq}")).await {
                        Ok(v) if v == format!("echo:pre{oi}-{seq}") => {}
                        Ok(v) => return Outcome::fail("wrong-reply", format!("got {v}")),
                        Err(e) => return Outcome::fail("healthy-stream-error", format!("request between outages failed: {e}")),
                    }
                }
                _ => {}
            }
        }
        let k = (o.fails as u32) % (m + 2);
        let fatal = o.fatal;
        let mode = if o.drop_conn { Verdict::DropConn } else { Verdict::Busy };
        {
            let mut g = sh.lock().unwrap();
            g.script.clear();
            for _ in 0..k {
                g.script.push_back(mode);
            }
            if fatal {
                g.script.push_back(Verdict::Fatal);
            }
        }
        if k > 0 { any_failing_attempt = true; }
        let regs_before = sh.lock().unwrap().regs.len();
        tokio::time::sleep(Duration::from_millis(5)).await;
        server.cut();
        let expect_exhaust = k >= m;
        let expect_fatal = fatal && k < m;
        // ---- drive the stream through the outage ----
        let drive_t0 = Instant::now();
        let mut main_attempts: Option<usize> = None;
        let outcome: Result<(), String> = match kind {
            0 => {
                let p = publisher.as_mut().unwrap();
                let mut res = Ok(());
                let dl = Instant::now() + Duration::from_secs(20);
                let mut anchored: Option<Vec<u8>> = None;
                if c.big_feed {
                    // let the client's endpoint notice the close first: the point is that the
                    // loss is then first met by poll_ready, not by a flush
                    tokio::time::sleep(Duration::from_millis(40)).await;
                    let mut failed = None;
                    for _ in 0..2 {
                        seq += 1;
                        let big = format!("o{oi}-{seq}-{}", "x".repeat(16 * 1024));
                        match tokio::time::timeout(Duration::from_secs(20), p.feed(big)).await {
                            Err(_) => { failed = Some(HANG.to_string()); break; }
                            Ok(Err(e)) => { failed = Some(e.to_string()); break; }
                            Ok(Ok(())) => {}
                        }
                    }
                    if let Some(e) = failed {
                        res = Err(e);
                    }
                }
                loop {
                    if res.is_err() {
                        break;
                    }
                    if Instant::now() > dl {
                        res = Err(HANG.into());
                        break;
                    }
                    seq += 1;
                    let body = format!("o{oi}-{seq}");
                    match tokio::time::timeout(Duration::from_secs(20), p.send(body.clone())).await {
                        Err(_) => { res = Err(HANG.into()); break; }
                        Ok(Err(e)) => { res = Err(e.to_string()); break; }
                        Ok(Ok(())) => {}
                    }
                    tokio::time::sleep(Duration::from_millis(3)).await;
                    let msgs = sh.lock().unwrap().pub_msgs.clone();
                    match &anchored {
                        None => { if msgs.contains(&body.clone().into_bytes()) { anchored = Some(body.into_bytes()); } }
                        Some(a) => {
                            let pos = msgs.iter().position(|x| x == a).unwrap();
                            if msgs.len() - pos >= 4 { break; }
                        }
                    }
                }
                if res.is_ok() {
                    // everything sent after the anchor item arrived in order, nothing missing
                    let msgs = sh.lock().unwrap().pub_msgs.clone();
                    let a = msgs.iter().position(|x| Some(x) == anchored.as_ref()).unwrap();
                    let nums: Vec<u64> = msgs[a..].iter().filter_map(|x| String::from_utf8_lossy(x).split('-').nth(1).and_then(|n| n.parse().ok())).collect();
                    if !nums.windows(2).all(|w| w[1] == w[0] + 1) {
                        res = Err(format!("ORDER/LOSS after recovery: sequence numbers {nums:?}"));
                    }
                }
                res
            }
            1 => {
                let s = subscriber.as_mut().unwrap();
                let sh2 = sh.clone();
                let tag = format!("o{oi}");
                let feeder = tokio::spawn({
                    let tag = tag.clone();
                    async move {
                        let mut j = 0;
                        loop {
                            tokio::time::sleep(Duration::from_millis(5)).await;
                            j += 1;
                            let g = sh2.lock().unwrap();
                            if let Some(tx) = g.sub_tx.last() {
                                let _ = tx.send(format!("{tag}-{j}").into_bytes());
                            }
                        }
                    }
                });
                let res = match tokio::time::timeout(Duration::from_secs(20), async {
                    loop {
                        match s.next().await {
                            Some(Ok(m)) => { if m.starts_with(&tag) { return Ok(()); } }
                            Some(Err(e)) => return Err(e.to_string()),
                            None => return Err("subscriber stream ended".into()),
                        }
                    }
                }).await { Ok(r) => r, Err(_) => Err(HANG.into()) };
                feeder.abort();
                res
            }
            2 => {
                let q = requestor.as_mut().unwrap();
                let mut res = Err("?".to_string());
                for attempt in 0..2 {
                    let body = format!("o{oi}-try{attempt}");
                    res = match tokio::time::timeout(Duration::from_secs(20), q.request(body.clone())).await {
                        Err(_) => Err(HANG.into()),
                        Ok(Err(e)) => Err(e.to_string()),
                        Ok(Ok(v)) => if v == format!("echo:{body}") { Ok(()) } else { Err(format!("WRONG reply {v}")) },
                    };
                    // a request written before the client noticed the close dies with the
                    // connection and legitimately times out once
                    if attempt == 0 && matches!(&res, Err(e) if e.contains("timed out")) { continue; }
                    break;
                }
                // registrations made for the original's own recovery (the clone re-registers too)
                main_attempts = Some(sh.lock().unwrap().regs.len() - regs_before);
                if res.is_ok() {
                    if let Some(q2) = requestor_clone.as_mut() {
                        // the clone recovers on its own request; afterwards both are used at once
                        let mut warm = Err("?".to_string());
                        for attempt in 0..2 {
                            let body = format!("o{oi}-clone-try{attempt}");
                            // the clone's first request after the outage (its own recovery) is made
                            // while the already recovered original has a slowly answered request in
                            // flight: one stream's recovery must not cost another its reply
                            let slow_body = format!("o{oi}-slow-original{attempt}");
                            let (slow, first) = tokio::join!(
                                tokio::time::timeout(Duration::from_secs(20), q.request(slow_body.clone())),
                                async {
                                    tokio::time::sleep(Duration::from_millis(40)).await;
                                    tokio::time::timeout(Duration::from_secs(20), q2.request(body.clone())).await
                                }
                            );
                            match slow {
                                Err(_) => res = Err(HANG.into()),
                                // (answered after 150 ms against a 300 ms timeout: under load it may time out)
                                Ok(Err(e)) if e.to_string().contains("timed out") => {}
                                Ok(Err(e)) => res = Err(format!("request in flight on the recovered original while its clone recovers: {e}")),
                                Ok(Ok(v)) => if v != format!("echo:{slow_body}") { res = Err(format!("WRONG reply: the original asked {slow_body:?} and got {v:?}")) },
                            }
                            if res.is_err() { break; }
                            warm = match first {
                                Err(_) => Err(HANG.into()),
                                Ok(Err(e)) => Err(e.to_string()),
                                Ok(Ok(v)) => if v == format!("echo:{body}") { Ok(()) } else { Err(format!("WRONG reply {v}")) },
                            };
                            if attempt == 0 && matches!(&warm, Err(e) if e.contains("timed out")) { continue; }
                            break;
                        }
                        if res.is_err() {
                        } else if let Err(e) = warm {
                            res = Err(format!("clone: {e}"));
                        } else {
                            for round in 0..3 {
                                let (ba, bb) = (format!("o{oi}-A{round}"), format!("o{oi}-B{round}"));
                                let (ra, rb) = tokio::join!(
                                    tokio::time::timeout(Duration::from_secs(20), q.request(ba.clone())),
                                    tokio::time::timeout(Duration::from_secs(20), q2.request(bb.clone()))
                                );
                                for (who, body, r) in [("original", ba, ra), ("clone", bb, rb)] {
                                    match r {
                                        Err(_) => res = Err(HANG.into()),
                                        Ok(Err(e)) => res = Err(format!("concurrent request on the {who} after recovery: {e}")),
                                        Ok(Ok(v)) => if v != format!("echo:{body}") { res = Err(format!("WRONG reply: the {who} asked {body:?} and got {v:?}")) },
                                    }
                                }
                                if res.is_err() { break; }
                            }
                        }
                    }
                }
                res
            }
            _ => {
                let want = format!("ans:o{oi}").into_bytes();
                let q = format!("o{oi}").into_bytes();
                let sh2 = sh.clone();
                let t = replier_task.as_mut().unwrap();
                let mut sent_on = usize::MAX;
                let ok = wait_until(Duration::from_secs(20), || {
                    if t.is_finished() { return true; }
                    let g = sh2.lock().unwrap();
                    if g.regs.len() > regs_before && g.regs.last().unwrap().1 == Verdict::Accept && g.rep_tx.len() != sent_on {
                        if let Some(tx) = g.rep_tx.last() { let _ = tx.send(q.clone()); sent_on = g.rep_tx.len(); }
                    }
                    g.rep_answers.contains(&want)
                }).await;
                if !ok { Err(HANG.into()) }
                else if t.is_finished() {
                    match replier_task.take().unwrap().await { Ok(Ok(())) => Err("listen() returned Ok".into()), Ok(Err(e)) => Err(e), Err(e) => Err(format!("listen task: {e}")) }
                } else { Ok(()) }
            }
        };
        let drive_elapsed = drive_t0.elapsed();
        let (attempts, same) = {
            let g = sh.lock().unwrap();
            (main_attempts.unwrap_or(g.regs.len() - regs_before), g.regs[regs_before..].iter().all(|(f, _)| *f == first_reg))
        };
        let ctx_s = format!("outage {oi} (stream {}, max_attempts {m}, {k} failing attempt(s) by {}, fatal={fatal}): ", labels[0], if o.drop_conn { "dropped connection" } else { "retryable refusal" });
        match (&outcome, expect_exhaust, expect_fatal) {
            (Err(e), _, _) if e == HANG => {
                return Outcome::fail("hang", format!("{ctx_s}the pending operation neither recovered nor reported an error within 20 s ({attempts} registration attempts seen)"));
            }
            (Ok(()), false, false) => {
                if !same {
                    return Outcome::fail("reregistration-differs", format!("{ctx_s}the re-registration frame differs from the original {first_reg:?}"));
                }
                if attempts != k as usize + 1 {
                    return Outcome::fail("attempt-count", format!("{ctx_s}recovered after {attempts} registration attempts, expected {}", k + 1));
                }
                survived += 1;
            }
            (Ok(()), _, _) => {
                return Outcome::fail("survived-unrecoverable", format!("{ctx_s}the stream carried on although exhaustion={expect_exhaust} fatal={expect_fatal} was scripted ({attempts} attempts)"));
            }
            (Err(e), true, _) => {
                if e.contains("Too many") && drive_elapsed > Duration::from_secs(15) && (kind == 0 || kind == 1) {
                    return Outcome::fail("exhaustion-reported-late", format!("{ctx_s}too-many-retries was only delivered after {drive_elapsed:?}, i.e. when the harness's own 20 s timer re-polled the stream: the stream did not wake its task when the budget ran out (a task with no other wake source would hang)"));
                }
                if !e.contains("Too many") {
                    return Outcome::fail("wrong-error-on-exhaustion", format!("{ctx_s}expected too-many-retries, got: {e}"));
                }
                if attempts != m as usize {
                    return Outcome::fail("attempt-count", format!("{ctx_s}gave up after {attempts} attempts, the budget is {m}"));
                }
                exhausted = true;
                break;
            }
            (Err(e), false, true) => {
                if e.contains("Too many") {
                    return Outcome::fail("fatal-reported-as-retries", format!("{ctx_s}{e}"));
                }
                if attempts != k as usize + 1 {
                    return Outcome::fail("attempt-count", format!("{ctx_s}unrecoverable answer reported after {attempts} attempts, expected {}", k + 1));
                }
                fatal_seen = true;
                break;
            }
            (Err(e), false, false) => {
                let clause = if e.contains("Too many") { "budget-not-per-outage" } else if e.contains("timed out") { "not-working-after-recovery" } else if e.starts_with("ORDER/LOSS") { "loss-after-recovery" } else { "unexpected-error" };
                return Outcome::fail(clause, format!("{ctx_s}{e} ({attempts} registration attempts seen; {survived} earlier outage(s) survived)"));
            }
        }
    }
    if let Some(t) = replier_task {
        t.abort();
    }
    if survived >= 2 { labels.push("survived>=2-outages"); }
    if survived as u32 > m && m > 0 { labels.push("more-outages-than-max-attempts"); }
    if any_failing_attempt { labels.push("failing-attempts"); }
    if exhausted { labels.push("exhausted"); }
    if fatal_seen { labels.push("unrecoverable-answer"); }
    if m == 0 { labels.push("max-attempts-0"); }
    if c.big_feed && kind == 0 { labels.push("publisher-pipelined-16KiB-after-cut"); }
    if c.clones && kind == 2 { labels.push("requestor-clones-used-concurrently"); }
    Outcome::pass(labels, survived >= 2 || any_failing_attempt || exhausted)
}

pub fn strategy() -> BoxedStrategy<Case> {
    let outage = (0u8..6, any::<bool>(), prop_oneof![6 => Just(false), 1 => Just(true)], 0u8..3).prop_map(|(fails, drop_conn, fatal, traffic_before)| Outage { fails, drop_conn, fatal, traffic_before });
    let outage_ok = (Just(0u8), any::<bool>(), Just(false), 0u8..3).prop_map(|(fails, drop_conn, fatal, traffic_before)| Outage { fails, drop_conn, fatal, traffic_before });
    let outages = prop_oneof![
        3 => proptest::collection::vec(outage, 0..6),
        // many clean outages in a row: distinguishes a per-outage from a lifetime budget
        2 => proptest::collection::vec(outage_ok, 3..7),
    ];
    (0u8..4, prop_oneof![1 => Just(0u8), 6 => 1u8..5], 0u8..3, 0u8..5, proptest::option::of(0u8..8), outages, any::<u16>(), 0u8..4, 0u8..3, prop::bool::weighted(0.3), any::<bool>())
        .prop_map(|(kind, max_attempts, backoff, step_ms, cap_ms, outages, retention, ops, topic, big_feed, clones)| Case { kind, max_attempts, backoff, step_ms, cap_ms, outages, retention, ops, topic, big_feed, clones })
        .boxed()
}

pub fn run(ctx: &mut Ctx) {
    ctx.rule = "stream kind in {publisher, subscriber, requestor, replier} with generated settings (topic, retention, operations), backoff (constant/linear/exponential, step 1-5 ms, max_attempts 0-4, optional cap) and a fault script of 0-6 outages (server-side connection close), each placed after a generated amount of traffic, with 0..max+1 failing reconnect attempts (connection accepted then dropped, or registration answered with the retryable REPLIER_ALREADY_BOUND) before one succeeds, or a non-retryable error frame; against a scripted fake server built from the real server's TLS configuration; oracle: exact attempt accounting (k+1 on recovery, exactly max_attempts on exhaustion, k+1 before a fatal answer), identical re-registration frame, traffic works after recovery (for a requestor with a clone: the clone recovers on its own first request while the already recovered original has a call in flight that the server answers after 150 ms - that call may time out but must not fail otherwise - and afterwards both are used at once), too-many-retries / the unrecoverable error is reported instead of hanging; non-trivial = >=2 outages survived, or an outage with >=1 failing attempt, or exhaustion".into();
    ctx.assumptions.push("an item or request handed over while the loss is still being detected may be lost: the publisher oracle anchors on the first item that arrives on the new registration, the first request after a cut may time out once".into());
    ctx.assumptions.push("outages are server-side closes; silent packet loss (idle time-outs) is not generated".into());
    let env = match Env::new() {
        Ok(e) => e,
        Err(e) => return ctx.inconclusive(format!("environment: {e}")),
    };
    let certs = env.certs.clone();
    let handle = env.rt.handle().clone();
    ctx.shrink_iters = 24;
    ctx.workers = ctx.workers.min(8);
    ctx.search("outage-scripts", strategy, ctx.tier.pick(240, 5_000), true, move |c: &Case| {
        crate::core::watchdog::tick();
        match crate::core::catch(|| handle.block_on(run_case(&certs, c))) {
            Ok(o) => o,
            Err(p) => Outcome::fail(format!("panic:{}", crate::core::panics::normalise(&p)), format!("client panicked: {p}")),
        }
    });
}

pub fn replay(id: &str, case: &serde_json::Value) -> i32 {
    let env = match Env::new() {
        Ok(e) => e,
        Err(e) => {
            eprintln!("environment: {e}");
            return 2;
        }
    };
    crate::core::replay_case::<Case>(id, case, 3, |c| match crate::core::catch(|| env.rt.block_on(run_case(&env.certs, c))) { Ok(o) => o, Err(p) => Outcome::fail(format!("panic:{}", crate::core::panics::normalise(&p)), format!("panicked: {p}")) })
}
