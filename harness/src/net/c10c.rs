//! C10 (client half): REPLIER_ALREADY_BOUND reaches `listen()` as the retryable bind
//! error; the bound replier's traffic is unaffected; after it leaves, a retrying replier
//! binds and serves. Real server, real client library.
use super::*;
use crate::core::{Ctx, Outcome};
use proptest::prelude::*;
use selium::keep_alive::BackoffStrategy;
use selium::prelude::*;
use selium::std::codecs::StringCodec;
use serde::{Deserialize, Serialize};

#[derive(Debug, Clone, Serialize, Deserialize, Hash, PartialEq, Eq)]
pub struct Case {
    pub max_attempts: u8,
    pub step_ms: u8,
    /// 0 = the first replier stays; 1 = it leaves while the second one is retrying;
    /// 2 = it leaves before the second one opens
    pub first_leaves: u8,
    pub requests: u8,
    pub extra_rejected: u8,
}

async fn ask(rq: &mut selium::keep_alive::reqrep::KeepAlive<selium::request_reply::Requestor<StringCodec, StringCodec, String, String>>, body: &str, tries: usize) -> Result<String, String> {
    let mut last = String::new();
    for _ in 0..tries {
        match rq.request(body.to_string()).await {
            Ok(v) => return Ok(v),
            Err(e) => last = e.to_string(),
        }
    }
    Err(last)
}

pub async fn run_case(addr: SocketAddr, certs: &Certs, c: &Case) -> Outcome {
    match tokio::time::timeout(Duration::from_secs(90), run_inner(addr, certs, c)).await {
        Ok(o) => o,
        Err(_) => Outcome::Inconclusive("case exceeded 90 s".into()),
    }
}

async fn run_inner(addr: SocketAddr, certs: &Certs, c: &Case) -> Outcome {
    let topic = format!("/c10ns/case-{}", fresh_id());
    let m = (c.max_attempts % 4) as u32;
    let step = Duration::from_millis(2 + (c.step_ms % 20) as u64);
    let bs = BackoffStrategy::constant().with_step(step).with_max_attempts(m);
    let cl_a = match client(addr, certs).await { Ok(c) => c, Err(e) => return Outcome::Inconclusive(e) };
    let cl_b = match client_with(addr, certs, Some(bs)).await { Ok(c) => c, Err(e) => return Outcome::Inconclusive(e) };
    let cl_q = match client(addr, certs).await { Ok(c) => c, Err(e) => return Outcome::Inconclusive(e) };
    let first = match cl_a.replier(&topic).with_request_decoder(StringCodec).with_reply_encoder(StringCodec).with_handler(|s: String| async move { Ok::<_, String>(format!("A:{s}")) }).open().await {
        Ok(r) => r,
        Err(e) => return Outcome::fail("first-replier-open-failed", format!("{e}")),
    };
    let first_task = tokio::spawn(async move { let mut r = first; r.listen().await.map_err(|e| e.to_string()) });
    let mut rq = match cl_q.requestor(&topic).with_request_encoder(StringCodec).with_reply_decoder(StringCodec).with_request_timeout(Duration::from_millis(400)) {
        Ok(b) => match b.open().await { Ok(r) => r, Err(e) => return Outcome::fail("requestor-open-failed", format!("{e}")) },
        Err(e) => return Outcome::Inconclusive(format!("{e}")),
    };
    // settle: the first replier is bound once it answers
    match ask(&mut rq, "settle", 20).await {
        Ok(v) if v == "A:settle" => {}
        other => return Outcome::Inconclusive(format!("first replier never answered: {other:?}")),
    }
    let mut labels = vec![];
    if c.first_leaves % 3 == 2 {
        first_task.abort();
        let _ = first_task.await;
        labels.push("first-left-before-second-opened");
        // the server needs a moment to notice the departure; the second replier's retry
        // budget may or may not cover it, so only the final state is checked below
        tokio::time::sleep(Duration::from_millis(50)).await;
        let second = cl_b.replier(&topic).with_request_decoder(StringCodec).with_reply_encoder(StringCodec).with_handler(|s: String| async move { Ok::<_, String>(format!("B:{s}")) }).open().await;
        let second = match second { Ok(s) => s, Err(e) => return Outcome::fail("second-replier-open-failed", format!("{e}")) };
        let t2 = tokio::spawn(async move { let mut r = second; r.listen().await.map_err(|e| e.to_string()) });
        let r = ask(&mut rq, "after-rebind", 25).await;
        t2.abort();
        return match r {
            Ok(v) if v == "B:after-rebind" => Outcome::pass(labels, true),
            Ok(v) => Outcome::fail("wrong-replier-answered", format!("got {v} after the first replier had left")),
            Err(e) => Outcome::fail("rebind-not-served", format!("the first replier left, a new one registered, but requests are not answered: {e}")),
        };
    }
    // second replier while the first is bound
    let second = cl_b.replier(&topic).with_request_decoder(StringCodec).with_reply_encoder(StringCodec).with_handler(|s: String| async move { Ok::<_, String>(format!("B:{s}")) }).open().await;
    let second = match second {
        Ok(s) => s,
        // refusing already at open() is an explicit refusal too
        Err(e) => {
            let es = e.to_string();
            if !es.contains("replier") && !es.contains("Failed to open stream") {
                return Outcome::fail("second-replier-wrong-open-error", es);
            }
            labels.push("second-refused-at-open");
            return finish_first(&mut rq, c, labels).await;
        }
    };
    let mut t2 = tokio::spawn(async move { let mut r = second; r.listen().await.map_err(|e| e.to_string()) });
    // the bound replier's traffic is unaffected
    for i in 0..(1 + c.requests % 5) {
        match ask(&mut rq, &format!("while-second-{i}"), 3).await {
            Ok(v) if v == format!("A:while-second-{i}") => {}
            Ok(v) => return Outcome::fail("request-reached-wrong-replier", format!("request {i} was answered {v:?} while the first replier is bound")),
            Err(e) => return Outcome::fail("bound-replier-traffic-disturbed", format!("request {i}: {e}")),
        }
    }
    if c.first_leaves % 3 == 0 {
        // The rejected replier is told (checked at wire level by C11 and in world B). What
        // its listen() does next is the client's retry policy: every re-registration is
        // answered Ok before the router refuses it again, so with a per-outage budget it may
        // keep retrying as a standby, or give up with the bind / too-many-retries error.
        // It must never return Ok, and it must never disturb the bound replier.
        match tokio::time::timeout(Duration::from_millis(1500), &mut t2).await {
            Ok(Ok(Err(e))) => {
                if !(e.contains("Too many") || e.contains("replier") || e.contains("Failed to open stream")) {
                    return Outcome::fail("rejected-replier-wrong-error", format!("listen() of the rejected replier ended with: {e}"));
                }
                labels.push("rejected-replier-gave-up");
            }
            Ok(Ok(Ok(()))) => return Outcome::fail("rejected-replier-listen-ok", "listen() of the rejected replier returned Ok"),
            Ok(Err(e)) => return Outcome::fail("rejected-replier-task", format!("{e}")),
            Err(_) => {
                labels.push("rejected-replier-keeps-retrying");
                t2.abort();
            }
        }
        return finish_first(&mut rq, c, labels).await;
    }
    // the first replier leaves while the second one may still be retrying
    first_task.abort();
    let _ = first_task.await;
    labels.push("first-left-while-second-retrying");
    tokio::time::sleep(Duration::from_millis(20)).await;
    let done = t2.is_finished();
    if done {
        // budget exhausted before the departure: a fresh replier must bind now
        let third = cl_b.replier(&topic).with_request_decoder(StringCodec).with_reply_encoder(StringCodec).with_handler(|s: String| async move { Ok::<_, String>(format!("B:{s}")) }).open().await;
        let third = match third { Ok(s) => s, Err(e) => return Outcome::fail("replier-open-failed-after-departure", format!("{e}")) };
        let t3 = tokio::spawn(async move { let mut r = third; r.listen().await.map_err(|e| e.to_string()) });
        let r = ask(&mut rq, "after-departure", 25).await;
        t3.abort();
        return match r {
            Ok(v) if v == "B:after-departure" => Outcome::pass(labels, true),
            other => Outcome::fail("rebind-not-served", format!("after the bound replier left a new replier is not served: {other:?}")),
        };
    }
    let r = ask(&mut rq, "after-departure", 25).await;
    t2.abort();
    match r {
        Ok(v) if v == "B:after-departure" => {
            labels.push("retrying-replier-took-over");
            Outcome::pass(labels, true)
        }
        // its budget may have run out in the meantime: not a verdict on the server
        Err(_) if m <= 3 => Outcome::pass(labels, false),
        other => Outcome::fail("rebind-not-served", format!("{other:?}")),
    }
}

async fn finish_first(rq: &mut selium::keep_alive::reqrep::KeepAlive<selium::request_reply::Requestor<StringCodec, StringCodec, String, String>>, _c: &Case, mut labels: Vec<&'static str>) -> Outcome {
    match ask(rq, "still-first", 3).await {
        Ok(v) if v == "A:still-first" => {
            labels.push("bound-replier-unaffected");
            Outcome::pass(labels, true)
        }
        Ok(v) => Outcome::fail("request-reached-wrong-replier", format!("answered {v:?}")),
        Err(e) => Outcome::fail("bound-replier-traffic-disturbed", e),
    }
}

pub fn strategy() -> BoxedStrategy<Case> {
    (0u8..4, 0u8..20, 0u8..3, 0u8..5, 0u8..3).prop_map(|(max_attempts, step_ms, first_leaves, requests, extra_rejected)| Case { max_attempts, step_ms, first_leaves, requests, extra_rejected }).boxed()
}

pub fn run(ctx: &mut Ctx) {
    let env = match Env::new() {
        Ok(e) => e,
        Err(e) => return ctx.inconclusive(format!("environment: {e}")),
    };
    let server = match env.rt.block_on(async { TestServer::start(&env.certs) }) {
        Ok(s) => s,
        Err(e) => return ctx.inconclusive(format!("server start: {e}")),
    };
    let addr = server.addr;
    let certs = env.certs.clone();
    let handle = env.rt.handle().clone();
    ctx.shrink_iters = 12;
    let saved = ctx.workers;
    ctx.workers = ctx.workers.min(8);
    ctx.search("client-repliers", strategy, ctx.tier.pick(40, 600), true, move |c: &Case| {
        crate::core::watchdog::tick();
        match crate::core::catch(|| handle.block_on(run_case(addr, &certs, c))) {
            Ok(o) => o,
            Err(p) => Outcome::fail(format!("panic:{}", crate::core::panics::normalise(&p)), format!("panicked: {p}")),
        }
    });
    ctx.workers = saved;
    ctx.shrink_iters = 20_000;
    drop(server);
}

pub fn replay(id: &str, case: &serde_json::Value) -> i32 {
    let env = match Env::new() {
        Ok(e) => e,
        Err(e) => {
            eprintln!("environment: {e}");
            return 2;
        }
    };
    let server = env.rt.block_on(async { TestServer::start(&env.certs) }).expect("server");
    let addr = server.addr;
    crate::core::replay_case::<Case>(id, case, 2, |c| match crate::core::catch(|| env.rt.block_on(run_case(addr, &env.certs, c))) { Ok(o) => o, Err(p) => Outcome::fail(format!("panic:{}", crate::core::panics::normalise(&p)), format!("panicked: {p}")) })
}
