//! C06 (loopback leg): generated payloads are sent by a raw publisher as Message /
//! BatchMessage frames to a real `Subscriber`, so the glue code in subscriber.rs itself is
//! exercised. Runs in a child process: an abort is attributed to the journalled case.
use super::*;
use crate::core::{Ctx, Outcome};
use crate::pure::c06::{self, build_input, Base, Mut};
use crate::pure::c14::{self, DecompBox, Record};
use proptest::prelude::*;
use selium::prelude::*;
use selium::std::codecs::{BincodeCodec, StringCodec};
use serde::{Deserialize, Serialize};

#[derive(Debug, Clone, Serialize, Deserialize, Hash, PartialEq, Eq)]
pub struct Case {
    /// which subscriber configuration: one of the pipeline targets of the worker leg
    pub target: u8,
    pub batch_frame: bool,
    pub base: Base,
    pub muts: Vec<Mut>,
    /// before the generated payload, this many empty-batch frames (well-formed, 17 bytes
    /// each when uncompressed) are sent in one burst
    #[serde(default)]
    pub flood: u32,
}

const PIPES: [u8; 4] = [c06::T_SUB_PLAIN, c06::T_SUB_ZSTD, c06::T_SUB_BROTLI_BINCODE, c06::T_SUB_LZ4_BINCODE];

fn decomp_algo(t: u8) -> Option<c14::Algo> {
    match t {
        c06::T_SUB_ZSTD => Some(c14::Algo::Zstd(3)),
        c06::T_SUB_BROTLI_BINCODE => Some(c14::Algo::Brotli { mode: 0, level: 4 }),
        c06::T_SUB_LZ4_BINCODE => Some(c14::Algo::Lz4),
        _ => None,
    }
}

async fn drive<D, Item>(mut sub: selium::keep_alive::pubsub::KeepAlive<selium::pubsub::Subscriber<D, Item>>, publ: Peer, payload: Vec<u8>, batch_frame: bool, good: Vec<u8>, flood: u32, good_empty: Vec<u8>) -> Outcome
where
    D: selium_std::traits::codec::MessageDecoder<Item> + Send + Unpin + 'static,
    Item: Send + Unpin + 'static,
{
    // settle with valid batch frames until the subscriber yields something
    let mut settled = false;
    for _ in 0..200 {
        publ.send(Frame::BatchMessage(good.clone().into()));
        match tokio::time::timeout(Duration::from_millis(40), sub.next()).await {
            Ok(Some(_)) => {
                settled = true;
                break;
            }
            Ok(None) => return Outcome::Inconclusive("subscriber ended during warm-up".into()),
            Err(_) => {}
        }
    }
    if !settled {
        return Outcome::Inconclusive("warm-up: subscriber saw nothing".into());
    }
    if flood > 0 {
        let empty = good_empty.clone();
        for _ in 0..flood {
            publ.send(Frame::BatchMessage(empty.clone().into()));
        }
    }
    // the generated payload, then a valid frame again
    if batch_frame {
        publ.send(Frame::BatchMessage(payload.into()));
    } else {
        publ.send(msg(payload));
    }
    publ.send(Frame::BatchMessage(good.clone().into()));
    // the subscriber is polled by a spawned task, i.e. on a runtime worker thread with its
    // default stack, like an application would do
    let (wait, polls) = if flood > 0 { (1500, 3) } else { (150, 6) };
    let h = tokio::spawn(async move {
        let (mut oks, mut errs) = (0, 0);
        for _ in 0..polls {
            match tokio::time::timeout(Duration::from_millis(wait), sub.next()).await {
                Ok(Some(Ok(_))) => oks += 1,
                Ok(Some(Err(_))) => errs += 1,
                Ok(None) => break,
                Err(_) => break,
            }
        }
        (oks, errs)
    });
    let (oks, errs) = match h.await {
        Ok(x) => x,
        Err(e) => return Outcome::fail("panic:subscriber-task", format!("the task polling the subscriber panicked: {e}")),
    };
    let mut l = vec![];
    if errs > 0 { l.push("subscriber-reported-error"); }
    if oks > 0 { l.push("subscriber-yielded-values"); }
    if flood > 0 { l.push("empty-batch-burst"); }
    if flood > 0 && oks == 0 && errs == 0 {
        return Outcome::Inconclusive("after the burst of empty batches the subscriber yielded nothing within 4.5 s".into());
    }
    Outcome::pass(l, true)
}

pub async fn run_case(addr: SocketAddr, certs: &Certs, c: &Case) -> Outcome {
    let t = PIPES[(c.target as usize) % PIPES.len()];
    let wc = c06::Case { target: t, base: c.base.clone(), muts: c.muts.clone() };
    let payload = build_input(&wc);
    let good = c06::valid_encoding(t, 7, 9, 2);
    // an empty batch in this subscriber's configuration (compressed if it decompresses)
    let good_empty = {
        let raw = selium_protocol::utils::encode_message_batch(vec![]);
        match decomp_algo(t) {
            Some(a) => c14::make(a).0.compress(raw).map(|b| b.to_vec()).unwrap_or_default(),
            None => raw.to_vec(),
        }
    };
    let tn = format!("case-{}", fresh_id());
    let topic = format!("/c06ns/{tn}");
    let cl = match client(addr, certs).await { Ok(c) => c, Err(e) => return Outcome::Inconclusive(e) };
    let id = match RawIdentity::from_certs(certs) { Ok(i) => i, Err(e) => return Outcome::Inconclusive(e.to_string()) };
    let conn = match raw_connect(addr, &id).await { Ok(c) => c, Err(e) => return Outcome::Inconclusive(e) };
    let bincode = matches!(t, c06::T_SUB_BROTLI_BINCODE | c06::T_SUB_LZ4_BINCODE);
    let fut = async {
        if bincode {
            let mut b = cl.subscriber(&topic).with_decoder(BincodeCodec::<Record>::default());
            if let Some(a) = decomp_algo(t) { b = b.with_decompression(DecompBox(c14::make(a).1)); }
            let sub = match b.open().await { Ok(s) => s, Err(e) => return Outcome::Inconclusive(format!("subscriber open: {e}")) };
            let publ = match raw_open(&conn, reg_pub("c06ns", &tn), Duration::from_secs(8)).await { Ok((s, FirstReply::Frame(Frame::Ok))) => Peer::spawn(s, false), _ => return Outcome::Inconclusive("publisher open".into()) };
            drive(sub, publ, payload, c.batch_frame, good, c.flood, good_empty.clone()).await
        } else {
            let mut b = cl.subscriber(&topic).with_decoder(StringCodec);
            if let Some(a) = decomp_algo(t) { b = b.with_decompression(DecompBox(c14::make(a).1)); }
            let sub = match b.open().await { Ok(s) => s, Err(e) => return Outcome::Inconclusive(format!("subscriber open: {e}")) };
            let publ = match raw_open(&conn, reg_pub("c06ns", &tn), Duration::from_secs(8)).await { Ok((s, FirstReply::Frame(Frame::Ok))) => Peer::spawn(s, false), _ => return Outcome::Inconclusive("publisher open".into()) };
            drive(sub, publ, payload, c.batch_frame, good, c.flood, good_empty.clone()).await
        }
    };
    match tokio::time::timeout(Duration::from_secs(60), fut).await {
        Ok(o) => o,
        Err(_) => Outcome::Inconclusive("case exceeded 60 s".into()),
    }
}

pub fn strategy() -> BoxedStrategy<Case> {
    (0u8..4, prop::bool::weighted(0.7), c06::strategy(vec![0]), prop_oneof![28 => Just(0u32), 1 => Just(20_000u32), 1 => Just(100_000u32)]).prop_map(|(target, batch_frame, c, flood)| Case { target, batch_frame, base: c.base, muts: c.muts, flood }).boxed()
}

/// child entry: `verif C06 --net-child <tier> <seed> <journal> <result>`
pub fn child_main(tier: crate::core::Tier, seed: u64, journal: &str, result: &str) -> i32 {
    let mut ctx = Ctx::new("C06", tier, seed, "exploration");
    let env = match Env::new() {
        Ok(e) => e,
        Err(e) => {
            eprintln!("environment: {e}");
            return 2;
        }
    };
    let server = match env.rt.block_on(async { TestServer::start(&env.certs) }) {
        Ok(s) => s,
        Err(e) => {
            eprintln!("server: {e}");
            return 2;
        }
    };
    let addr = server.addr;
    let certs = env.certs.clone();
    let handle = env.rt.handle().clone();
    let journal = journal.to_string();
    ctx.shrink_iters = 30;
    ctx.search("e2e-subscriber", strategy, tier.pick(300, 6_000), false, move |c: &Case| {
        crate::core::watchdog::tick();
        let _ = std::fs::write(&journal, serde_json::to_string(c).unwrap_or_default());
        match crate::core::catch(|| handle.block_on(run_case(addr, &certs, c))) {
            Ok(o) => o,
            Err(p) => Outcome::fail(format!("panic:subscriber:{}", crate::core::panics::normalise(&p)), format!("the subscriber panicked while handling a frame from the network: {p}")),
        }
    });
    let out = serde_json::json!({"evaluations": ctx.evaluations(), "nontrivial": ctx.nontrivial_count(), "violations": ctx.violations.len()});
    let _ = std::fs::write(result, out.to_string());
    drop(server);
    if ctx.failed() { 1 } else { 0 }
}

/// parent side
pub fn run_in_child(ctx: &mut Ctx) {
    let work = WorkDir::new();
    let journal = work.0.join("c06-net-journal.json");
    let result = work.0.join("c06-net-result.json");
    let exe = match std::env::current_exe() {
        Ok(e) => e,
        Err(e) => return ctx.inconclusive(format!("current_exe: {e}")),
    };
    let child = std::process::Command::new(exe)
        .args(["C06", "--net-child", ctx.tier.name(), &ctx.seed.to_string(), &journal.to_string_lossy(), &result.to_string_lossy()])
        .spawn();
    let mut child = match child {
        Ok(c) => c,
        Err(e) => return ctx.inconclusive(format!("cannot spawn the loopback child: {e}")),
    };
    // the child has its own per-case watchdog; the parent only keeps its own one fed and
    // bounds the total time
    let t0 = std::time::Instant::now();
    let limit = Duration::from_secs(ctx.tier.pick(900, 7200));
    let status = loop {
        crate::core::watchdog::tick();
        match child.try_wait() {
            Ok(Some(s)) => break s,
            Ok(None) => {
                if t0.elapsed() > limit {
                    let _ = child.kill();
                    let _ = child.wait();
                    return ctx.inconclusive("loopback child exceeded its time budget".into());
                }
                std::thread::sleep(Duration::from_millis(200));
            }
            Err(e) => return ctx.inconclusive(format!("waiting for the loopback child: {e}")),
        }
    };
    let res: serde_json::Value = std::fs::read_to_string(&result).ok().and_then(|s| serde_json::from_str(&s).ok()).unwrap_or(serde_json::Value::Null);
    match status.code() {
        Some(0) | Some(1) if !res.is_null() => {
            let n = res["evaluations"].as_u64().unwrap_or(0);
            ctx.add_evaluations(n);
            for i in 0..res["nontrivial"].as_u64().unwrap_or(0) {
                ctx.add_nontrivial_hash(crate::core::mix(i, 0xC06E));
            }
            ctx.extra.insert("e2e-subscriber".into(), res.clone());
            if status.code() == Some(1) {
                // the child already printed its VIOLATION line and wrote the replay file
                ctx.mark_external_violation("e2e-subscriber");
            }
        }
        Some(2) => ctx.inconclusive("loopback child inconclusive".into()),
        other => {
            // died: the journal names the case it was handling
            let case: serde_json::Value = std::fs::read_to_string(&journal).ok().and_then(|s| serde_json::from_str(&s).ok()).unwrap_or(serde_json::Value::Null);
            ctx.report_violation_raw("e2e-subscriber", &case, "abort:subscriber-process", &format!("the process hosting the real Subscriber died (status {other:?}) while handling the journalled case"));
        }
    }
}

pub fn replay(id: &str, case: &serde_json::Value) -> i32 {
    // a recurrence of a process-killing defect must not take the replaying process down with
    // it: the replay runs in a child, and a child killed by a signal is the violation
    if std::env::var("VERIF_REPLAY_CHILD").is_err() {
        let tmp = WorkDir::new();
        let f = tmp.0.join("c06-replay-case.json");
        let doc = serde_json::json!({"property": id, "leg": "e2e-subscriber", "case": case});
        if std::fs::write(&f, doc.to_string()).is_err() {
            return 2;
        }
        let exe = match std::env::current_exe() { Ok(e) => e, Err(_) => return 2 };
        let st = std::process::Command::new(exe).args([id, "--replay", &f.to_string_lossy()]).env("VERIF_REPLAY_CHILD", "1").status();
        return match st {
            Ok(s) => match s.code() {
                Some(c) => c,
                None => {
                    let path = std::env::var("VERIF_REPLAY_PATH").unwrap_or_else(|_| "<given>".into());
                    println!("replay: the process hosting the real Subscriber was killed by a signal ({s})");
                    println!("VIOLATION property={id} replay={path}");
                    1
                }
            },
            Err(_) => 2,
        };
    }
    let env = match Env::new() {
        Ok(e) => e,
        Err(e) => {
            eprintln!("environment: {e}");
            return 2;
        }
    };
    let server = env.rt.block_on(async { TestServer::start(&env.certs) }).expect("server");
    let addr = server.addr;
    crate::core::replay_case::<Case>(id, case, 2, |c| match crate::core::catch(|| env.rt.block_on(run_case(addr, &env.certs, c))) {
        Ok(o) => o,
        Err(p) => Outcome::fail("panic:subscriber", p),
    })
}
