//! C12 (and the post-recovery clause of C04) against the *real* server: the client under
//! test reaches the server through a UDP relay owned by the harness. An outage is a
//! black-holed relay: nothing passes in either direction for longer than the QUIC idle
//! timeout (10 s, the smaller of the client's and the server's), so both ends give the
//! connection up, exactly as with a dead network path. Then the path works again, the
//! server has been reachable all along, and the stream has to re-register and work.
use super::*;
use crate::core::{Ctx, Outcome};
use futures::{SinkExt, StreamExt};
use proptest::prelude::*;
use selium::keep_alive::BackoffStrategy;
use selium::prelude::*;
use selium::std::codecs::StringCodec;
use selium_protocol::MessagePayload;
use serde::{Deserialize, Serialize};
use std::collections::HashMap;
use std::sync::atomic::{AtomicBool, Ordering};
use std::time::Instant;
use tokio::net::UdpSocket;

/// UDP relay with a switch that drops everything in both directions
pub struct Relay {
    pub addr: SocketAddr,
    pub blackhole: Arc<AtomicBool>,
    tasks: Arc<std::sync::Mutex<Vec<tokio::task::JoinHandle<()>>>>,
}
impl Relay {
    pub async fn start(upstream: SocketAddr) -> std::io::Result<Relay> {
        let front = Arc::new(UdpSocket::bind("127.0.0.1:0").await?);
        let addr = front.local_addr()?;
        let blackhole = Arc::new(AtomicBool::new(false));
        let tasks: Arc<std::sync::Mutex<Vec<tokio::task::JoinHandle<()>>>> = Default::default();
        let (bh, tk) = (blackhole.clone(), tasks.clone());
        let main = tokio::spawn(async move {
            let mut map: HashMap<SocketAddr, Arc<UdpSocket>> = HashMap::new();
            let mut buf = vec![0u8; 65536];
            loop {
                let Ok((n, from)) = front.recv_from(&mut buf).await else { break };
                if bh.load(Ordering::Relaxed) {
                    continue;
                }
                let up = match map.get(&from) {
                    Some(u) => u.clone(),
                    None => {
                        let Ok(u) = UdpSocket::bind("127.0.0.1:0").await else { continue };
                        if u.connect(upstream).await.is_err() {
                            continue;
                        }
                        let u = Arc::new(u);
                        let (u2, front2, bh2) = (u.clone(), front.clone(), bh.clone());
                        tk.lock().unwrap().push(tokio::spawn(async move {
                            let mut b = vec![0u8; 65536];
                            while let Ok(n) = u2.recv(&mut b).await {
                                if !bh2.load(Ordering::Relaxed) {
                                    let _ = front2.send_to(&b[..n], from).await;
                                }
                            }
                        }));
                        map.insert(from, u.clone());
                        u
                    }
                };
                let _ = up.send(&buf[..n]).await;
            }
        });
        tasks.lock().unwrap().push(main);
        Ok(Relay { addr, blackhole, tasks })
    }
}
impl Drop for Relay {
    fn drop(&mut self) {
        for t in self.tasks.lock().unwrap().drain(..) {
            t.abort();
        }
    }
}

#[derive(Debug, Clone, Serialize, Deserialize, Hash, PartialEq, Eq)]
pub struct Case {
    /// 0 publisher, 1 subscriber, 2 requestor, 3 replier
    pub kind: u8,
    /// 1 or 2 successive outages
    pub outages: u8,
    /// items / requests exchanged before each outage
    pub before: u8,
    /// extra black-hole time on top of the 16 s both ends need to give up, in 100 ms
    pub extra: u8,
    /// requestor: clones made before the first outage are used concurrently afterwards
    pub clones: u8,
    /// the stream is used while the path is dead (otherwise it first meets the loss afterwards)
    pub busy_during: bool,
}

const HOLE: Duration = Duration::from_millis(16_000);
const RECOVER: Duration = Duration::from_secs(45);

fn tagged(req_id: &str, cid: Option<&String>) -> Option<HashMap<String, String>> {
    let mut h = HashMap::new();
    h.insert("req_id".to_string(), req_id.to_string());
    if let Some(c) = cid {
        h.insert("cid".to_string(), c.clone());
    }
    Some(h)
}

/// scripted wire-level replier: holds requests until nothing new has arrived for 30 ms, then
/// answers all of them in reverse order of arrival with "re:" + body
fn spawn_reverse_replier(mut s: BiStream) -> tokio::task::JoinHandle<()> {
    tokio::spawn(async move {
        let mut held: Vec<MessagePayload> = vec![];
        loop {
            match tokio::time::timeout(Duration::from_millis(30), s.next()).await {
                Ok(Some(Ok(Frame::Message(m)))) => held.push(m),
                Ok(Some(Ok(_))) => {}
                Ok(Some(Err(_))) | Ok(None) => break,
                Err(_) => {
                    while let Some(m) = held.pop() {
                        let mut b = b"re:".to_vec();
                        b.extend_from_slice(&m.message);
                        if s.send(Frame::Message(MessagePayload { headers: m.headers, message: b.into() })).await.is_err() {
                            return;
                        }
                    }
                }
            }
        }
    })
}

pub async fn run_case(certs: &Certs, c: &Case) -> Outcome {
    match tokio::time::timeout(Duration::from_secs(200), run_inner(certs, c)).await {
        Ok(o) => o,
        Err(_) => Outcome::Inconclusive("case exceeded 200 s".into()),
    }
}

async fn run_inner(certs: &Certs, c: &Case) -> Outcome {
    let server = match TestServer::start(certs) {
        Ok(s) => s,
        Err(e) => return Outcome::Inconclusive(format!("server: {e}")),
    };
    let relay = match Relay::start(server.addr).await {
        Ok(r) => r,
        Err(e) => return Outcome::Inconclusive(format!("relay: {e}")),
    };
    let id = match RawIdentity::from_certs(certs) {
        Ok(i) => i,
        Err(e) => return Outcome::Inconclusive(format!("certs: {e}")),
    };
    // the counterpart talks to the server directly: its path never fails
    let direct = match raw_connect(server.addr, &id).await {
        Ok(c) => c,
        Err(e) => return Outcome::Inconclusive(e),
    };
    let bs = BackoffStrategy::constant().with_step(Duration::from_millis(200)).with_max_attempts(8);
    let client = match client_with(relay.addr, certs, Some(bs)).await {
        Ok(c) => c,
        Err(e) => return Outcome::Inconclusive(format!("client connect through the relay: {e}")),
    };
    let kind = c.kind % 4;
    let ns = "c12real";
    let tn = format!("topic-{}", fresh_id());
    let topic = format!("/{ns}/{tn}");
    let noutages = 1 + (c.outages % 2) as usize;
    let hole = HOLE + Duration::from_millis(100 * (c.extra % 30) as u64);
    let before = (c.before % 3) as usize;
    let mut labels: Vec<&'static str> = vec![["publisher", "subscriber", "requestor", "replier"][kind as usize], "real-server"];
    if noutages > 1 { labels.push("two-outages"); }
    if c.busy_during { labels.push("used-during-outage"); }

    // the path heals by itself after `hole`, whatever the stream under test is doing then
    // (a call on it may well block until the path is back)
    macro_rules! outage {
        () => {{
            relay.blackhole.store(true, Ordering::Relaxed);
            let bh = relay.blackhole.clone();
            tokio::spawn(async move {
                tokio::time::sleep(hole).await;
                bh.store(false, Ordering::Relaxed);
            });
        }};
    }
    macro_rules! heal {
        () => {{
            while relay.blackhole.load(Ordering::Relaxed) {
                tokio::time::sleep(Duration::from_millis(50)).await;
            }
        }};
    }

    match kind {
        0 => {
            let (ss, r) = match raw_open(&direct, reg_sub(ns, &tn), Duration::from_secs(10)).await { Ok(x) => x, Err(e) => return Outcome::Inconclusive(e) };
            if !matches!(r, FirstReply::Frame(Frame::Ok)) { return Outcome::Inconclusive(format!("raw subscriber: {r:?}")); }
            let mut sub = Peer::spawn(ss, false);
            let mut p = match client.publisher(&topic).with_encoder(StringCodec).open().await { Ok(p) => p, Err(e) => return Outcome::fail("open-failed", format!("{e}")) };
            // settle: the raw subscriber has been adopted once it sees something
            let mut settled = false;
            for k in 0..200 {
                if p.send(format!("warm-{k}")).await.is_err() { break; }
                if sub.wait_for(Duration::from_millis(30), |f| body_of(f).map_or(false, |b| b.starts_with(b"warm-"))).await { settled = true; break; }
            }
            if !settled { return Outcome::Inconclusive("publisher/subscriber pair did not settle before any outage".into()); }
            let mut seq = 0u64;
            for oi in 0..noutages {
                for _ in 0..before {
                    seq += 1;
                    let body = format!("pre{oi}-{seq}");
                    if let Err(e) = p.send(body.clone()).await { return Outcome::fail("healthy-stream-error", format!("publisher send between outages failed: {e}")); }
                    let want = body.into_bytes();
                    if !sub.wait_for(Duration::from_secs(10), move |f| body_of(f) == Some(&want[..])).await { return Outcome::fail("healthy-stream-loss", format!("an item sent between outages (outage {oi}) never reached the subscriber")); }
                }
                outage!();
                let t0 = Instant::now();
                while t0.elapsed() < hole && relay.blackhole.load(Ordering::Relaxed) {
                    if c.busy_during {
                        seq += 1;
                        // sends into a dead path may succeed (buffered) or fail with the loss;
                        // a terminal error here would already be the stream giving up
                        match tokio::time::timeout(Duration::from_secs(30), p.send(format!("during{oi}-{seq}"))).await {
                            Ok(Ok(())) => {}
                            Ok(Err(e)) if e.to_string().contains("retries") => return Outcome::fail("gave-up-while-server-reachable", format!("publisher during outage {oi}: {e}")),
                            Ok(Err(_)) => {}
                            Err(_) => return Outcome::fail("hang", format!("publisher send during outage {oi} did not return within 30 s")),
                        }
                    }
                    tokio::time::sleep(Duration::from_millis(500)).await;
                }
                heal!();
                // after recovery: some send is accepted and arrives; everything accepted after it arrives in order
                let t1 = Instant::now();
                let mut anchored = false;
                let mut after_anchor: Vec<Vec<u8>> = vec![];
                while t1.elapsed() < RECOVER && after_anchor.len() < 3 {
                    seq += 1;
                    let body = format!("post{oi}-{seq}");
                    match tokio::time::timeout(Duration::from_secs(30), p.send(body.clone())).await {
                        Err(_) => return Outcome::fail("hang", format!("publisher send after outage {oi} did not return within 30 s")),
                        Ok(Err(e)) => return Outcome::fail("did-not-recover", format!("publisher after outage {oi} (path healed {:?} ago, server reachable throughout): {e}", t1.elapsed())),
                        Ok(Ok(())) => {}
                    }
                    let want = body.clone().into_bytes();
                    if anchored {
                        after_anchor.push(want);
                    } else if sub.wait_for(Duration::from_millis(300), move |f| body_of(f) == Some(&want[..])).await {
                        anchored = true;
                    }
                }
                if !anchored { return Outcome::fail("did-not-recover", format!("publisher: {RECOVER:?} after outage {oi} ended, sends return Ok but nothing reaches a subscriber that has been connected throughout")); }
                for w in after_anchor {
                    let w2 = w.clone();
                    if !sub.wait_for(Duration::from_secs(10), move |f| body_of(f) == Some(&w2[..])).await {
                        return Outcome::fail("lost-after-recovery", format!("publisher after outage {oi}: {:?} was accepted after an earlier item had already arrived, but never arrived itself", String::from_utf8_lossy(&w)));
                    }
                }
                sub.drain();
            }
        }
        1 => {
            let (ps, r) = match raw_open(&direct, reg_pub(ns, &tn), Duration::from_secs(10)).await { Ok(x) => x, Err(e) => return Outcome::Inconclusive(e) };
            if !matches!(r, FirstReply::Frame(Frame::Ok)) { return Outcome::Inconclusive(format!("raw publisher: {r:?}")); }
            let publ = Peer::spawn(ps, false);
            let mut s = match client.subscriber(&topic).with_decoder(StringCodec).open().await { Ok(s) => s, Err(e) => return Outcome::fail("open-failed", format!("{e}")) };
            // feeder: numbered items for the current phase
            let phase = Arc::new(std::sync::Mutex::new("warm".to_string()));
            let feeder = {
                let phase = phase.clone();
                let out = publ.out.clone();
                tokio::spawn(async move {
                    let mut j = 0u64;
                    loop {
                        tokio::time::sleep(Duration::from_millis(25)).await;
                        j += 1;
                        let tag = phase.lock().unwrap().clone();
                        if out.send(msg(format!("{tag}-{j}").into_bytes())).is_err() { break; }
                    }
                })
            };
            let r = wait_tag(&mut s, "warm", Duration::from_secs(20)).await;
            if let Err(e) = r { feeder.abort(); return Outcome::Inconclusive(format!("subscriber did not settle before any outage: {e}")); }
            for oi in 0..noutages {
                outage!();
                *phase.lock().unwrap() = format!("during{oi}");
                if c.busy_during {
                    // polled while the path is dead: must not yield a terminal error
                    match tokio::time::timeout(hole, async { loop { match s.next().await { Some(Ok(_)) => {} other => break other } } }).await {
                        Err(_) => {}
                        Ok(Some(Err(e))) => { feeder.abort(); return Outcome::fail("gave-up-while-server-reachable", format!("subscriber during outage {oi}: {e}")); }
                        Ok(_) => { feeder.abort(); return Outcome::fail("did-not-recover", format!("subscriber stream ended during outage {oi}")); }
                    }
                } else {
                    tokio::time::sleep(hole).await;
                }
                heal!();
                *phase.lock().unwrap() = format!("post{oi}");
                if let Err(e) = wait_tag(&mut s, &format!("post{oi}"), RECOVER).await {
                    feeder.abort();
                    return Outcome::fail(if e == "HANG" { "did-not-recover" } else { "did-not-recover" }, format!("subscriber: after outage {oi} ended (server reachable throughout, a publisher keeps publishing): {e}"));
                }
            }
            feeder.abort();
        }
        2 => {
            let (rs, r) = match raw_open(&direct, reg_rep(ns, &tn), Duration::from_secs(10)).await { Ok(x) => x, Err(e) => return Outcome::Inconclusive(e) };
            if !matches!(r, FirstReply::Frame(Frame::Ok)) { return Outcome::Inconclusive(format!("raw replier: {r:?}")); }
            let rep = spawn_reverse_replier(rs);
            let b = client.requestor(&topic).with_request_encoder(StringCodec).with_reply_decoder(StringCodec).with_request_timeout(Duration::from_millis(1500));
            let mut q = match b { Ok(b) => match b.open().await { Ok(q) => q, Err(e) => { rep.abort(); return Outcome::fail("open-failed", format!("{e}")) } }, Err(e) => { rep.abort(); return Outcome::Inconclusive(format!("{e}")) } };
            let nclones = (c.clones % 3) as usize;
            let mut clones: Vec<_> = (0..nclones).map(|_| q.clone()).collect();
            if nclones > 0 { labels.push("cloned-requestors"); }
            let mut settled = false;
            for k in 0..40 {
                if let Ok(v) = q.request(format!("warm-{k}")).await { if v == format!("re:warm-{k}") { settled = true; break; } }
            }
            if !settled { rep.abort(); return Outcome::Inconclusive("requestor/replier pair did not settle before any outage".into()); }
            let mut seq = 0u64;
            for oi in 0..noutages {
                for _ in 0..before {
                    seq += 1;
                    let body = format!("pre{oi}-{seq}");
                    match q.request(body.clone()).await {
                        Ok(v) if v == format!("re:{body}") => {}
                        Ok(v) => { rep.abort(); return Outcome::fail("wrong-reply", format!("asked {body:?}, got {v:?}")); }
                        Err(e) => { rep.abort(); return Outcome::fail("healthy-stream-error", format!("request between outages failed: {e}")); }
                    }
                }
                outage!();
                let t0 = Instant::now();
                while t0.elapsed() < hole && relay.blackhole.load(Ordering::Relaxed) {
                    if c.busy_during {
                        seq += 1;
                        let body = format!("during{oi}-{seq}");
                        match tokio::time::timeout(Duration::from_secs(40), q.request(body.clone())).await {
                            // a call that blocks until the path is back and is then answered is fine
                            Ok(Ok(v)) if v == format!("re:{body}") => {}
                            Ok(Ok(v)) => { rep.abort(); return Outcome::fail("wrong-reply", format!("during outage {oi}: asked {body:?}, got {v:?}")); }
                            Ok(Err(e)) if e.to_string().contains("retries") => { rep.abort(); return Outcome::fail("gave-up-while-server-reachable", format!("requestor during outage {oi}: {e}")); }
                            Ok(Err(_)) => {}
                            Err(_) => { rep.abort(); return Outcome::fail("hang", format!("request during outage {oi} did not return within 40 s (timeout 1.5 s)")); }
                        }
                    }
                    tokio::time::sleep(Duration::from_millis(500)).await;
                }
                heal!();
                // after recovery: requests are answered again, each with its own reply
                let t1 = Instant::now();
                let mut ok = false;
                let mut last_err = String::new();
                while t1.elapsed() < RECOVER {
                    seq += 1;
                    let body = format!("post{oi}-{seq}");
                    match tokio::time::timeout(Duration::from_secs(40), q.request(body.clone())).await {
                        Err(_) => { rep.abort(); return Outcome::fail("hang", format!("request after outage {oi} did not return within 40 s (timeout 1.5 s)")); }
                        Ok(Ok(v)) if v == format!("re:{body}") => { ok = true; break; }
                        Ok(Ok(v)) => { rep.abort(); return Outcome::fail("wrong-reply", format!("after outage {oi}: asked {body:?}, got {v:?}")); }
                        Ok(Err(e)) if e.to_string().contains("retries") => { rep.abort(); return Outcome::fail("did-not-recover", format!("requestor after outage {oi} (server reachable throughout): {e}")); }
                        Ok(Err(e)) => last_err = e.to_string(),
                    }
                    tokio::time::sleep(Duration::from_millis(200)).await;
                }
                if !ok { rep.abort(); return Outcome::fail("did-not-recover", format!("requestor: {RECOVER:?} after outage {oi} ended no request is answered (last error: {last_err}); the replier has been connected throughout")); }
                // the clones recover on their own first request, then all are used at once
                for (ci, q2) in clones.iter_mut().enumerate() {
                    let t2 = Instant::now();
                    let mut ok = false;
                    while t2.elapsed() < RECOVER {
                        seq += 1;
                        let body = format!("post{oi}-clone{ci}-{seq}");
                        match tokio::time::timeout(Duration::from_secs(40), q2.request(body.clone())).await {
                            Err(_) => { rep.abort(); return Outcome::fail("hang", format!("request on clone {ci} after outage {oi} did not return within 40 s")); }
                            Ok(Ok(v)) if v == format!("re:{body}") => { ok = true; break; }
                            Ok(Ok(v)) => { rep.abort(); return Outcome::fail("wrong-reply", format!("clone {ci} after outage {oi}: asked {body:?}, got {v:?}")); }
                            Ok(Err(e)) if e.to_string().contains("retries") => { rep.abort(); return Outcome::fail("did-not-recover", format!("requestor clone {ci} after outage {oi}: {e}")); }
                            Ok(Err(_)) => {}
                        }
                        tokio::time::sleep(Duration::from_millis(200)).await;
                    }
                    if !ok { rep.abort(); return Outcome::fail("did-not-recover", format!("requestor clone {ci}: no request answered within {RECOVER:?} after outage {oi}")); }
                }
                if !clones.is_empty() {
                    for round in 0..3 {
                        let mut futs = vec![];
                        let body0 = format!("conc{oi}-r{round}-orig");
                        let b0 = body0.clone();
                        let f0 = async { (b0.clone(), tokio::time::timeout(Duration::from_secs(40), q.request(b0.clone())).await) };
                        for (ci, q2) in clones.iter_mut().enumerate() {
                            let body = format!("conc{oi}-r{round}-clone{ci}");
                            futs.push(async move { (body.clone(), tokio::time::timeout(Duration::from_secs(40), q2.request(body)).await) });
                        }
                        let (r0, rest) = tokio::join!(f0, futures::future::join_all(futs));
                        for (body, r) in std::iter::once(r0).chain(rest) {
                            match r {
                                Err(_) => { rep.abort(); return Outcome::fail("hang", format!("concurrent request {body:?} after outage {oi} did not return within 40 s")); }
                                Ok(Ok(v)) if v == format!("re:{body}") => {}
                                Ok(Ok(v)) => { rep.abort(); return Outcome::fail("foreign-reply", format!("after outage {oi}, concurrent calls on the requestor and its clones: {body:?} was answered with {v:?}")); }
                                Ok(Err(e)) => { rep.abort(); return Outcome::fail("call-failed-after-recovery", format!("after outage {oi}, concurrent calls on the requestor and its clones (all recovered, replier answers everything): {body:?} failed with {e}")); }
                            }
                        }
                    }
                    labels.push("concurrent-calls-after-recovery");
                }
            }
            rep.abort();
        }
        _ => {
            let rep = client.replier(&topic).with_request_decoder(StringCodec).with_reply_encoder(StringCodec).with_handler(|s: String| async move { Ok::<_, String>(format!("ans:{s}")) }).open().await;
            let rep = match rep { Ok(r) => r, Err(e) => return Outcome::fail("open-failed", format!("{e}")) };
            let mut task = tokio::spawn(async move { let mut rep = rep; rep.listen().await.map_err(|e| e.to_string()) });
            let (qs, r) = match raw_open(&direct, reg_req(ns, &tn), Duration::from_secs(10)).await { Ok(x) => x, Err(e) => return Outcome::Inconclusive(e) };
            if !matches!(r, FirstReply::Frame(Frame::Ok)) { task.abort(); return Outcome::Inconclusive(format!("raw requestor: {r:?}")); }
            let mut req = Peer::spawn(qs, false);
            let mut n = 0u64;
            // ask until answered (the raw requestor's path never fails)
            async fn ask(req: &mut Peer, n: &mut u64, tag: &str, dl: Duration, task: &mut tokio::task::JoinHandle<Result<(), String>>) -> Result<(), String> {
                let t = Instant::now();
                while t.elapsed() < dl {
                    if task.is_finished() {
                        return Err(match task.await { Ok(Ok(())) => "listen() returned Ok(())".into(), Ok(Err(e)) => format!("listen() returned Err({e})"), Err(e) => format!("listen() task: {e}") });
                    }
                    *n += 1;
                    let body = format!("{tag}-{n}");
                    req.send(Frame::Message(MessagePayload { headers: tagged(&n.to_string(), None), message: body.clone().into_bytes().into() }));
                    let want = format!("ans:{body}").into_bytes();
                    if req.wait_for(Duration::from_millis(250), move |f| body_of(f) == Some(&want[..])).await { return Ok(()); }
                }
                Err("HANG".into())
            }
            if let Err(e) = ask(&mut req, &mut n, "warm", Duration::from_secs(20), &mut task).await { task.abort(); return Outcome::Inconclusive(format!("replier did not settle before any outage: {e}")); }
            for oi in 0..noutages {
                for _ in 0..before {
                    if let Err(e) = ask(&mut req, &mut n, &format!("pre{oi}"), Duration::from_secs(10), &mut task).await { task.abort(); return Outcome::fail("healthy-stream-error", format!("replier between outages: {e}")); }
                }
                outage!();
                let t0 = Instant::now();
                while t0.elapsed() < hole && relay.blackhole.load(Ordering::Relaxed) {
                    if c.busy_during {
                        n += 1;
                        req.send(Frame::Message(MessagePayload { headers: tagged(&n.to_string(), None), message: format!("during{oi}-{n}").into_bytes().into() }));
                    }
                    if task.is_finished() {
                        let r = task.await;
                        return Outcome::fail("gave-up-while-server-reachable", format!("replier during outage {oi}: listen() ended with {r:?}"));
                    }
                    tokio::time::sleep(Duration::from_millis(500)).await;
                }
                heal!();
                req.drain();
                match ask(&mut req, &mut n, &format!("post{oi}"), RECOVER + Duration::from_secs(15), &mut task).await {
                    Ok(()) => {}
                    Err(e) if e == "HANG" => { task.abort(); return Outcome::fail("did-not-recover", format!("replier: {:?} after outage {oi} ended, a requestor that has been connected throughout still gets no answer", RECOVER + Duration::from_secs(15))); }
                    Err(e) => return Outcome::fail("did-not-recover", format!("replier after outage {oi} (server reachable throughout): {e}")),
                }
            }
            task.abort();
        }
    }
    Outcome::pass(labels, true)
}

async fn wait_tag<S, E>(s: &mut S, tag: &str, dl: Duration) -> Result<(), String>
where
    S: futures::Stream<Item = Result<String, E>> + Unpin,
    E: std::fmt::Display,
{
    match tokio::time::timeout(dl, async {
        loop {
            match s.next().await {
                Some(Ok(m)) => {
                    if m.starts_with(tag) {
                        return Ok(());
                    }
                }
                Some(Err(e)) => return Err(format!("the subscriber yielded the error {e}")),
                None => return Err("the subscriber stream ended".into()),
            }
        }
    })
    .await
    {
        Ok(r) => r,
        Err(_) => Err(format!("nothing tagged {tag:?} arrived within {dl:?}")),
    }
}

pub fn strategy() -> BoxedStrategy<Case> {
    (0u8..4, prop_oneof![3 => Just(0u8), 1 => Just(1u8)], 0u8..3, 0u8..30, 0u8..3, any::<bool>())
        .prop_map(|(kind, outages, before, extra, clones, busy_during)| Case { kind, outages, before, extra, clones, busy_during })
        .boxed()
}

/// `only_requestor`: the C04 flavour (calls on clones after a recovered outage)
pub fn run(ctx: &mut Ctx, leg: &'static str, only_requestor: bool) {
    let env = match Env::new() {
        Ok(e) => e,
        Err(e) => return ctx.inconclusive(format!("environment: {e}")),
    };
    let certs = env.certs.clone();
    let handle = env.rt.handle().clone();
    let saved = (ctx.workers, ctx.shrink_iters);
    ctx.shrink_iters = 2;
    ctx.workers = ctx.workers.min(12);
    let cases = if only_requestor { ctx.tier.pick(6, 48) } else { ctx.tier.pick(12, 160) };
    let quick = ctx.tier == crate::core::Tier::Quick;
    let mk = move || {
        if only_requestor {
            strategy().prop_map(|mut c| { c.kind = 2; c.clones = 1 + c.clones % 2; c.outages = 0; c }).boxed()
        } else if quick {
            // one outage per case in the quick tier (a second one doubles the wall time)
            strategy().prop_map(|mut c| { c.outages = 0; c }).boxed()
        } else {
            strategy()
        }
    };
    ctx.search(leg, mk, cases, true, move |c: &Case| {
        crate::core::watchdog::tick();
        // a case legitimately sits in a black-holed path for tens of seconds: keep the
        // watchdog informed while it runs (the case has its own 200 s limit)
        let stop = Arc::new(AtomicBool::new(false));
        let s2 = stop.clone();
        let ticker = std::thread::spawn(move || {
            while !s2.load(Ordering::Relaxed) {
                crate::core::watchdog::tick();
                std::thread::sleep(Duration::from_millis(200));
            }
        });
        let r = match crate::core::catch(|| handle.block_on(run_case(&certs, c))) {
            Ok(o) => o,
            Err(p) => Outcome::fail(format!("panic:{}", crate::core::panics::normalise(&p)), format!("client panicked: {p}")),
        };
        stop.store(true, Ordering::Relaxed);
        let _ = ticker.join();
        r
    });
    ctx.workers = saved.0;
    ctx.shrink_iters = saved.1;
}

pub fn replay(id: &str, case: &serde_json::Value) -> i32 {
    let env = match Env::new() {
        Ok(e) => e,
        Err(e) => {
            eprintln!("environment: {e}");
            return 2;
        }
    };
    crate::core::replay_case::<Case>(id, case, 1, |c| match crate::core::catch(|| env.rt.block_on(run_case(&env.certs, c))) { Ok(o) => o, Err(p) => Outcome::fail(format!("panic:{}", crate::core::panics::normalise(&p)), format!("panicked: {p}")) })
}
