//! C07 (server half) and the cross-topic part of C01: the server applies the topic grammar
//! to names arriving on the wire, and distinct names never share traffic.
use super::*;
use crate::core::{Ctx, Outcome};
use crate::pure::c07::reference_any;
use proptest::prelude::*;
use selium_protocol::error_codes::INVALID_TOPIC_NAME;
use serde::{Deserialize, Serialize};

#[derive(Debug, Clone, Serialize, Deserialize, Hash, PartialEq, Eq)]
pub struct NameCase {
    pub role: u8,
    pub ns: String,
    pub t: String,
}

pub async fn run_name_case(addr: SocketAddr, id: &RawIdentity, c: &NameCase) -> Outcome {
    let conn = match raw_connect(addr, id).await {
        Ok(c) => c,
        Err(e) => return Outcome::Inconclusive(format!("connect: {e}")),
    };
    let f = match c.role % 4 {
        0 => reg_pub(&c.ns, &c.t),
        1 => reg_sub(&c.ns, &c.t),
        2 => reg_rep(&c.ns, &c.t),
        _ => reg_req(&c.ns, &c.t),
    };
    let (mut stream, reply) = match raw_open(&conn, f, Duration::from_secs(8)).await {
        Ok(x) => x,
        Err(e) => return Outcome::Inconclusive(format!("open: {e}")),
    };
    // a '/' inside a component can never be part of a valid name
    let verdict = if c.ns.contains('/') || c.t.contains('/') { Some(false) } else { reference_any(&c.ns, &c.t) };
    let name = format!("namespace {:?} topic {:?}", c.ns, c.t);
    let mut labels = vec![["as-publisher", "as-subscriber", "as-replier", "as-requestor"][(c.role % 4) as usize]];
    match (&reply, verdict) {
        (FirstReply::Frame(Frame::Ok), Some(false)) => return Outcome::fail("server-accepted-invalid-name", format!("{name}: violates the grammar but the registration was answered Ok (topic created)")),
        (FirstReply::Frame(Frame::Error(e)), Some(false)) => {
            if e.code != INVALID_TOPIC_NAME {
                return Outcome::fail("wrong-error-code-for-invalid-name", format!("{name}: refused with code {} instead of INVALID_TOPIC_NAME", e.code));
            }
            // "instead of creating the topic": the refusal is the end of that stream
            match tokio::time::timeout(Duration::from_millis(400), stream.next()).await {
                Ok(Some(Ok(f))) => return Outcome::fail("served-after-refusal", format!("{name}: refused with INVALID_TOPIC_NAME, but the stream then received {f:?} (the registration was carried out all the same)")),
                _ => {}
            }
            labels.push("refused-invalid");
        }
        // cases share one server: the same valid name may already run the other messaging
        // pattern (code 7, a refusal about the pattern, not about the name)
        (FirstReply::Frame(Frame::Error(e)), Some(true)) if e.code == 7 => labels.push("valid-name-other-pattern-in-use"),
        (FirstReply::Frame(Frame::Error(e)), Some(true)) => return Outcome::fail("server-refused-valid-name", format!("{name}: valid but refused with code {}", e.code)),
        (FirstReply::Frame(Frame::Ok), Some(true)) => labels.push("accepted-valid"),
        (FirstReply::Frame(Frame::Ok), None) | (FirstReply::Frame(Frame::Error(_)), None) => labels.push("unicode-gray-zone"),
        (other, _) => return Outcome::fail("registration-not-answered", format!("{name}: first reply {other:?}")),
    }
    let l = |p: &str| p.chars().count();
    let boundary = [l(&c.ns), l(&c.t)].iter().any(|n| matches!(n, 2 | 3 | 64 | 65)) || c.ns.to_lowercase().starts_with("seliu");
    Outcome::pass(labels, boundary || !c.ns.is_ascii() || !c.t.is_ascii() || verdict == Some(false))
}

pub fn name_strategy() -> BoxedStrategy<NameCase> {
    // reuse the grammar generator's (namespace, topic) pairs
    (0u8..4, crate::pure::c07::strategy())
        .prop_filter_map("pairs only", |(role, c)| match c {
            crate::pure::c07::Case::Pair(ns, t) => Some(NameCase { role, ns, t }),
            crate::pure::c07::Case::Str(s) => {
                // split a whole string into components the way the wire carries them
                let rest = s.strip_prefix('/').unwrap_or(&s).to_string();
                let (ns, t) = rest.split_once('/').map(|(a, b)| (a.to_string(), b.to_string())).unwrap_or((rest.clone(), "topic".into()));
                Some(NameCase { role, ns, t })
            }
        })
        .boxed()
}

// ------------------------------------------------------------------ isolation
#[derive(Debug, Clone, Serialize, Deserialize, Hash, PartialEq, Eq)]
pub struct IsoCase {
    /// which confusable family
    pub family: u8,
    pub a: String,
    pub b: String,
    pub c: String,
    pub ntopics: u8,
    pub pubs: Vec<u8>,
    pub subs: Vec<u8>,
    pub msgs: u8,
}

pub fn confusable(c: &IsoCase) -> Vec<(String, String)> {
    let (a, b, cc) = (&c.a, &c.b, &c.c);
    let mut v = match c.family % 8 {
        0 => vec![(format!("{a}-{b}"), cc.clone()), (a.clone(), format!("{b}-{cc}")), (format!("{a}_{b}"), cc.clone())],
        1 => vec![(a.clone(), b.clone()), (a.clone(), format!("{b}x")), (a.clone(), cc.clone())],
        2 => vec![(a.clone(), b.clone()), (b.clone(), a.clone()), (a.clone(), a.clone())],
        3 => vec![(a.to_lowercase(), b.clone()), (a.to_uppercase(), b.clone()), (a.to_lowercase(), b.to_uppercase())],
        4 => vec![(format!("{a}_"), b.clone()), (a.clone(), format!("_{b}")), (format!("{a}-"), b.clone())],
        5 => vec![(format!("{a}{b}"), cc.clone()), (a.clone(), format!("{b}{cc}")), (format!("{a}{b}{cc}"), cc.clone())],
        6 => vec![(a.clone(), b.clone()), (format!("x{a}"), b.clone()), (a.clone(), format!("x{b}"))],
        _ => vec![(a.clone(), cc.clone()), (b.clone(), cc.clone()), (cc.clone(), cc.clone())],
    };
    v.dedup();
    let mut out: Vec<(String, String)> = vec![];
    for x in v {
        if !out.contains(&x) && reference_any(&x.0, &x.1) == Some(true) {
            out.push(x);
        }
    }
    out.truncate(2 + (c.ntopics % 2) as usize);
    out
}

pub async fn run_iso_case(addr: SocketAddr, id: &RawIdentity, c: &IsoCase) -> Outcome {
    let names = confusable(c);
    if names.len() < 2 {
        return Outcome::pass(vec!["degenerate-family"], false);
    }
    let conn = match raw_connect(addr, id).await {
        Ok(c) => c,
        Err(e) => return Outcome::Inconclusive(format!("connect: {e}")),
    };
    // unique suffix so that cases sharing a server never share a topic
    let uniq = format!("{}", fresh_id());
    let names: Vec<(String, String)> = names.into_iter().map(|(ns, t)| (ns, format!("{}{}", &t[..t.len().min(40)], uniq))).collect();
    struct Topic {
        pubs: Vec<Peer>,
        subs: Vec<Peer>,
    }
    let mut topics: Vec<Topic> = vec![];
    for (ti, (ns, t)) in names.iter().enumerate() {
        let np = 1 + (c.pubs.get(ti).copied().unwrap_or(0) % 2) as usize;
        let nsb = 1 + (c.subs.get(ti).copied().unwrap_or(0) % 2) as usize;
        let mut tp = Topic { pubs: vec![], subs: vec![] };
        for _ in 0..nsb {
            match raw_open(&conn, reg_sub(ns, t), Duration::from_secs(8)).await {
                Ok((s, FirstReply::Frame(Frame::Ok))) => tp.subs.push(Peer::spawn(s, false)),
                Ok((_, r)) => return Outcome::fail("valid-name-refused", format!("subscriber on /{ns}/{t}: {r:?}")),
                Err(e) => return Outcome::Inconclusive(e),
            }
        }
        for _ in 0..np {
            match raw_open(&conn, reg_pub(ns, t), Duration::from_secs(8)).await {
                Ok((s, FirstReply::Frame(Frame::Ok))) => tp.pubs.push(Peer::spawn(s, false)),
                Ok((_, r)) => return Outcome::fail("valid-name-refused", format!("publisher on /{ns}/{t}: {r:?}")),
                Err(e) => return Outcome::Inconclusive(e),
            }
        }
        topics.push(tp);
    }
    // settle: every subscriber has seen a probe of every publisher of its topic
    for (ti, tp) in topics.iter_mut().enumerate() {
        for pi in 0..tp.pubs.len() {
            for si in 0..tp.subs.len() {
                let (pubs, subs) = (&tp.pubs, &mut tp.subs);
                if !pubsub_probe(&pubs[pi], &mut subs[si], &format!("probe:T{ti}P{pi}S{si}"), Duration::from_secs(10)).await {
                    return Outcome::Inconclusive(format!("settling topic {ti}: probe never arrived"));
                }
            }
        }
    }
    let m = 3 + (c.msgs % 20) as usize;
    // interleave the publishers of all topics
    for n in 0..m {
        for (ti, tp) in topics.iter().enumerate() {
            for (pi, p) in tp.pubs.iter().enumerate() {
                p.send(msg(format!("T{ti}P{pi}#{n}#{}", names[ti].0).into_bytes()));
            }
        }
    }
    for (ti, tp) in topics.iter().enumerate() {
        for (pi, p) in tp.pubs.iter().enumerate() {
            p.send(msg(format!("T{ti}P{pi}#END").into_bytes()));
        }
    }
    for (ti, tp) in topics.iter_mut().enumerate() {
        let npubs = tp.pubs.len();
        for (si, s) in tp.subs.iter_mut().enumerate() {
            for pi in 0..npubs {
                let want = format!("T{ti}P{pi}#END").into_bytes();
                if !s.wait_for(Duration::from_secs(10), move |f| body_of(f) == Some(&want[..])).await {
                    return Outcome::fail("own-topic-traffic-missing", format!("subscriber {si} of topic {ti} (/{}/{}) never received the end marker of publisher {pi}", names[ti].0, names[ti].1));
                }
            }
            // small grace period for stray foreign frames
            let _ = s.wait_for(Duration::from_millis(30), |_| false).await;
            s.drain();
            for pi in 0..npubs {
                let mut seq: Vec<usize> = vec![];
                for f in &s.received {
                    let b = String::from_utf8_lossy(body_of(f).unwrap_or(b"")).into_owned();
                    if b.starts_with("probe:") {
                        if !b.starts_with(&format!("probe:T{ti}P")) {
                            return Outcome::fail("foreign-topic-traffic", format!("subscriber of topic {ti} (/{}/{}) received {b:?}", names[ti].0, names[ti].1));
                        }
                        continue;
                    }
                    let Some(rest) = b.strip_prefix('T') else { return Outcome::fail("foreign-topic-traffic", format!("subscriber of topic {ti} received unknown frame {b:?}")) };
                    let tnum: usize = rest.split('P').next().and_then(|x| x.parse().ok()).unwrap_or(usize::MAX);
                    if tnum != ti {
                        return Outcome::fail("foreign-topic-traffic", format!("subscriber {si} of topic {ti} (/{}/{}) received {b:?}, published on topic {tnum} (/{}/{})", names[ti].0, names[ti].1, names.get(tnum).map_or("?", |n| &n.0), names.get(tnum).map_or("?", |n| &n.1)));
                    }
                    if b.starts_with(&format!("T{ti}P{pi}#")) && !b.ends_with("#END") {
                        if let Some(n) = b.split('#').nth(1).and_then(|x| x.parse().ok()) {
                            seq.push(n);
                        }
                    }
                }
                if seq != (0..m).collect::<Vec<_>>() {
                    return Outcome::fail("own-topic-sequence", format!("subscriber {si} of topic {ti}: messages of publisher {pi} arrived as {seq:?}, expected 0..{m} in order exactly once"));
                }
            }
        }
    }
    let mut labels = vec![["dash-moves-across-slash", "same-namespace", "swapped-parts", "case-differences", "underscore-placement", "concatenation-boundary", "prefix-variants", "same-topic-part"][(c.family % 8) as usize]];
    if names.len() >= 3 { labels.push("three-topics"); }
    Outcome::pass(labels, true)
}

pub fn iso_strategy() -> BoxedStrategy<IsoCase> {
    let comp = || proptest::string::string_regex("[a-z][a-z0-9]{2,7}").unwrap();
    (0u8..8, comp(), comp(), comp(), 0u8..2, proptest::collection::vec(0u8..2, 3), proptest::collection::vec(0u8..2, 3), 0u8..20)
        .prop_map(|(family, a, b, c, ntopics, pubs, subs, msgs)| IsoCase { family, a, b, c, ntopics, pubs, subs, msgs })
        .boxed()
}

/// runs both server legs; `only_isolation` is used by the C01 supplement
pub fn run(ctx: &mut Ctx, names: bool, isolation: bool) {
    let env = match Env::new() {
        Ok(e) => e,
        Err(e) => return ctx.inconclusive(format!("environment: {e}")),
    };
    let server = match env.rt.block_on(async { TestServer::start(&env.certs) }) {
        Ok(s) => s,
        Err(e) => return ctx.inconclusive(format!("server start: {e}")),
    };
    let addr = server.addr;
    let id = match RawIdentity::from_certs(&env.certs) {
        Ok(i) => std::sync::Arc::new(i),
        Err(e) => return ctx.inconclusive(format!("certs: {e}")),
    };
    let handle = env.rt.handle().clone();
    ctx.shrink_iters = 40;
    let saved_workers = ctx.workers;
    ctx.workers = ctx.workers.min(8);
    if names {
        let (h, i) = (handle.clone(), id.clone());
        ctx.search("server-names", name_strategy, ctx.tier.pick(2_000, 40_000), true, move |c: &NameCase| {
            crate::core::watchdog::tick();
            match crate::core::catch(|| h.block_on(run_name_case(addr, &i, c))) {
                Ok(o) => o,
                Err(p) => Outcome::fail(format!("panic:{}", crate::core::panics::normalise(&p)), format!("panicked: {p}")),
            }
        });
    }
    if isolation && !ctx.failed() {
        let (h, i) = (handle.clone(), id.clone());
        ctx.search("isolation", iso_strategy, ctx.tier.pick(200, 4_000), true, move |c: &IsoCase| {
            crate::core::watchdog::tick();
            match crate::core::catch(|| h.block_on(run_iso_case(addr, &i, c))) {
                Ok(o) => o,
                Err(p) => Outcome::fail(format!("panic:{}", crate::core::panics::normalise(&p)), format!("panicked: {p}")),
            }
        });
    }
    ctx.workers = saved_workers;
    ctx.shrink_iters = 20_000;
    drop(server);
}

pub fn replay(id: &str, leg: &str, case: &serde_json::Value) -> i32 {
    let env = match Env::new() {
        Ok(e) => e,
        Err(e) => {
            eprintln!("environment: {e}");
            return 2;
        }
    };
    let server = env.rt.block_on(async { TestServer::start(&env.certs) }).expect("server");
    let rid = RawIdentity::from_certs(&env.certs).expect("certs");
    let addr = server.addr;
    if leg == "server-names" {
        crate::core::replay_case::<NameCase>(id, case, 2, |c| env.rt.block_on(run_name_case(addr, &rid, c)))
    } else {
        crate::core::replay_case::<IsoCase>(id, case, 2, |c| env.rt.block_on(run_iso_case(addr, &rid, c)))
    }
}
