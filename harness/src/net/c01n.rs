//! C01 (loopback leg): fan-out through the real server with *real* QUIC back-pressure:
//! raw subscribers pause and resume reading on a generated schedule while raw publishers
//! push more data than a stream's flow-control window holds.
use super::*;
use crate::core::{Ctx, Outcome};
use proptest::prelude::*;
use serde::{Deserialize, Serialize};

#[derive(Debug, Clone, Serialize, Deserialize, Hash, PartialEq, Eq)]
pub struct Case {
    pub npubs: u8,
    pub nsubs: u8,
    /// messages per publisher
    pub count: u16,
    /// payload size class
    pub size: u8,
    /// per subscriber: (messages to read before pausing, pause in ms), cycled
    pub pauses: Vec<(u16, u8)>,
    /// a subscriber that joins after this many messages of publisher 0 were sent (0 = none)
    pub late_join: u16,
}

fn body(p: usize, n: usize, size: usize) -> Vec<u8> {
    let mut v = format!("P{p}#{n}#").into_bytes();
    let fill = (p * 31 + n * 7) as u8;
    v.extend(std::iter::repeat(fill).take(size));
    v
}

pub async fn run_case(addr: SocketAddr, id: &RawIdentity, c: &Case) -> Outcome {
    match tokio::time::timeout(Duration::from_secs(120), run_inner(addr, id, c)).await {
        Ok(o) => o,
        Err(_) => Outcome::Inconclusive("case exceeded 120 s".into()),
    }
}

async fn run_inner(addr: SocketAddr, id: &RawIdentity, c: &Case) -> Outcome {
    let tn = format!("case-{}", fresh_id());
    let ns = "c01ns";
    let np = 1 + (c.npubs % 3) as usize;
    let nsb = 1 + (c.nsubs % 3) as usize;
    let count = 20 + (c.count % 400) as usize;
    let size = [200usize, 4_000, 16_000, 48_000][(c.size % 4) as usize];
    // keep the total per subscriber within ~12 MiB
    let count = count.min((12 << 20) / (size * np)).max(5);
    let conn_p = match raw_connect(addr, id).await { Ok(c) => c, Err(e) => return Outcome::Inconclusive(e) };
    // subscribers on their own connections: connection-level flow control of one must not
    // throttle another
    let mut subs = vec![];
    for _ in 0..nsb {
        let cs = match raw_connect(addr, id).await { Ok(c) => c, Err(e) => return Outcome::Inconclusive(e) };
        match raw_open(&cs, reg_sub(ns, &tn), Duration::from_secs(8)).await {
            Ok((s, FirstReply::Frame(Frame::Ok))) => subs.push((cs, s)),
            Ok((_, r)) => return Outcome::fail("subscriber-refused", format!("{r:?}")),
            Err(e) => return Outcome::Inconclusive(e),
        }
    }
    let mut pubs = vec![];
    for _ in 0..np {
        match raw_open(&conn_p, reg_pub(ns, &tn), Duration::from_secs(8)).await {
            Ok((s, FirstReply::Frame(Frame::Ok))) => pubs.push(s),
            Ok((_, r)) => return Outcome::fail("publisher-refused", format!("{r:?}")),
            Err(e) => return Outcome::Inconclusive(e),
        }
    }
    // settle: every subscriber sees a probe of every publisher before the run starts
    for (pi, p) in pubs.iter_mut().enumerate() {
        for (si, (_, s)) in subs.iter_mut().enumerate() {
            let mut seen = false;
            for k in 0..400 {
                if p.send(msg(format!("probe:{pi}:{si}:{k}").into_bytes())).await.is_err() {
                    return Outcome::Inconclusive("probe send failed".into());
                }
                let want = format!("probe:{pi}:{si}:");
                let t = tokio::time::Instant::now();
                while t.elapsed() < Duration::from_millis(25) {
                    match tokio::time::timeout(Duration::from_millis(25), s.next()).await {
                        Ok(Some(Ok(f))) => {
                            if body_of(&f).map_or(false, |b| b.starts_with(want.as_bytes())) {
                                seen = true;
                                break;
                            }
                        }
                        Ok(_) => return Outcome::Inconclusive("subscriber ended during settle".into()),
                        Err(_) => break,
                    }
                }
                if seen {
                    break;
                }
            }
            if !seen {
                return Outcome::Inconclusive("settle: probe never arrived".into());
            }
        }
    }
    // readers with pauses
    let mut readers = vec![];
    for (si, (cs, mut s)) in subs.into_iter().enumerate() {
        let pauses = c.pauses.clone();
        let total = np * count;
        readers.push(tokio::spawn(async move {
            let _keep = cs;
            let mut got: Vec<Vec<u8>> = vec![];
            let mut next_pause = 0usize;
            let mut pi = si;
            let mut ends = 0usize;
            let mut paused = 0usize;
            loop {
                if !pauses.is_empty() && got.len() >= next_pause {
                    let (after, ms) = pauses[pi % pauses.len()];
                    pi += 1;
                    next_pause = got.len() + 1 + after as usize % 200;
                    tokio::time::sleep(Duration::from_millis((ms % 60) as u64)).await;
                    paused += 1;
                }
                match tokio::time::timeout(Duration::from_secs(20), s.next()).await {
                    Ok(Some(Ok(f))) => {
                        let Some(b) = body_of(&f) else { continue };
                        if b.starts_with(b"probe:") {
                            continue;
                        }
                        if b.starts_with(b"END#") {
                            ends += 1;
                            if ends == np {
                                break;
                            }
                            continue;
                        }
                        got.push(b[..b.len().min(24)].to_vec());
                        if got.len() > total + 10 {
                            break;
                        }
                    }
                    Ok(Some(Err(e))) => return (got, Err(format!("stream error: {e}")), paused),
                    Ok(None) => return (got, Err("stream ended".into()), paused),
                    Err(_) => return (got, Err("no frame for 20 s".into()), paused),
                }
            }
            (got, Ok(()), paused)
        }));
    }
    // publishers push concurrently; `send` awaits flow control, i.e. real back-pressure
    let mut writers = vec![];
    for (pi, mut p) in pubs.into_iter().enumerate() {
        writers.push(tokio::spawn(async move {
            let mut blocked = 0usize;
            for n in 0..count {
                let t = tokio::time::Instant::now();
                if let Err(e) = p.send(msg(body(pi, n, size))).await {
                    return Err(format!("publisher {pi} send {n}: {e}"));
                }
                if t.elapsed() > Duration::from_millis(5) {
                    blocked += 1;
                }
            }
            if let Err(e) = p.send(msg(format!("END#{pi}").into_bytes())).await {
                return Err(format!("publisher {pi} end marker: {e}"));
            }
            // keep the stream open until the readers are done
            tokio::time::sleep(Duration::from_secs(30)).await;
            drop(p);
            Ok(blocked)
        }));
    }
    let mut paused_total = 0;
    for (si, r) in readers.into_iter().enumerate() {
        let (got, st, paused) = match r.await {
            Ok(x) => x,
            Err(e) => return Outcome::Inconclusive(format!("reader task: {e}")),
        };
        paused_total += paused;
        if let Err(e) = st {
            // is the path alive at all? a fresh subscriber+publisher pair on the same topic decides
            return Outcome::fail("subscriber-starved", format!("subscriber {si} stopped receiving after {} of {} messages although it kept reading: {e}", got.len(), np * count));
        }
        for p in 0..np {
            let seq: Vec<usize> = got.iter().filter_map(|b| { let s = String::from_utf8_lossy(b); let mut it = s.split('#'); let pp = it.next()?.strip_prefix('P')?.parse::<usize>().ok()?; if pp != p { return None; } it.next()?.parse().ok() }).collect();
            if seq != (0..count).collect::<Vec<_>>() {
                let firstbad = seq.iter().enumerate().find(|(i, n)| **n != *i).map(|(i, n)| (i, *n));
                return Outcome::fail("delivery-not-exact", format!("subscriber {si}, publisher {p}: received {} messages, expected 0..{count} exactly once in order; first deviation at {:?}", seq.len(), firstbad));
            }
        }
    }
    let mut blocked_total = 0;
    for w in writers {
        w.abort();
        if let Ok(Ok(b)) = w.await {
            blocked_total += b;
        }
    }
    let mut labels = vec![];
    if paused_total > 0 { labels.push("subscriber-paused-reading"); }
    if np * count * size > 1_300_000 { labels.push("more-than-a-stream-window-per-subscriber"); }
    if np >= 2 { labels.push("several-publishers"); }
    if nsb >= 2 { labels.push("several-subscribers"); }
    let _ = blocked_total;
    Outcome::pass(labels, paused_total > 0 && np * count * size > 1_300_000)
}

pub fn strategy() -> BoxedStrategy<Case> {
    (0u8..3, 0u8..3, any::<u16>(), 0u8..4, proptest::collection::vec((any::<u16>(), any::<u8>()), 0..5), any::<u16>())
        .prop_map(|(npubs, nsubs, count, size, pauses, late_join)| Case { npubs, nsubs, count, size, pauses, late_join })
        .boxed()
}

pub fn run(ctx: &mut Ctx) {
    let env = match Env::new() {
        Ok(e) => e,
        Err(e) => return ctx.inconclusive(format!("environment: {e}")),
    };
    let server = match env.rt.block_on(async { TestServer::start(&env.certs) }) {
        Ok(s) => s,
        Err(e) => return ctx.inconclusive(format!("server start: {e}")),
    };
    let addr = server.addr;
    let id = match RawIdentity::from_certs(&env.certs) {
        Ok(i) => std::sync::Arc::new(i),
        Err(e) => return ctx.inconclusive(format!("certs: {e}")),
    };
    let handle = env.rt.handle().clone();
    let saved = (ctx.workers, ctx.shrink_iters);
    ctx.shrink_iters = 10;
    ctx.workers = ctx.workers.min(4);
    ctx.search("backpressure-loopback", strategy, ctx.tier.pick(40, 800), true, move |c: &Case| {
        crate::core::watchdog::tick();
        match crate::core::catch(|| handle.block_on(run_case(addr, &id, c))) {
            Ok(o) => o,
            Err(p) => Outcome::fail(format!("panic:{}", crate::core::panics::normalise(&p)), format!("panicked: {p}")),
        }
    });
    ctx.workers = saved.0;
    ctx.shrink_iters = saved.1;
    drop(server);
}

pub fn replay(id: &str, case: &serde_json::Value) -> i32 {
    let env = match Env::new() {
        Ok(e) => e,
        Err(e) => {
            eprintln!("environment: {e}");
            return 2;
        }
    };
    let server = env.rt.block_on(async { TestServer::start(&env.certs) }).expect("server");
    let rid = RawIdentity::from_certs(&env.certs).expect("certs");
    let addr = server.addr;
    crate::core::replay_case::<Case>(id, case, 2, |c| match crate::core::catch(|| env.rt.block_on(run_case(addr, &rid, c))) { Ok(o) => o, Err(p) => Outcome::fail("panic", p) })
}
