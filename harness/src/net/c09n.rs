//! C09 (loopback leg): the real server must not burn CPU while topics are idle, whatever
//! population they have (nobody, only publishers, only subscribers, only a replier, only
//! requestors, both sides). A router that spins inside poll() pins a runtime worker: the
//! process's CPU time over an idle window shows it.
use super::*;
use crate::core::{Ctx, Outcome};
use serde::{Deserialize, Serialize};

#[derive(Debug, Clone, Serialize, Deserialize, Hash, PartialEq, Eq)]
pub struct Case {
    /// per topic: population bit mask (1 publisher, 2 subscriber, 4 replier, 8 requestor)
    pub topics: Vec<u8>,
    /// send a little traffic first, then go idle
    pub traffic_first: bool,
}

fn cpu_time() -> Duration {
    let mut ru: libc::rusage = unsafe { std::mem::zeroed() };
    unsafe { libc::getrusage(libc::RUSAGE_SELF, &mut ru) };
    Duration::new(ru.ru_utime.tv_sec as u64, ru.ru_utime.tv_usec as u32 * 1000) + Duration::new(ru.ru_stime.tv_sec as u64, ru.ru_stime.tv_usec as u32 * 1000)
}

pub async fn run_case(certs: &Certs, c: &Case) -> Outcome {
    let server = match TestServer::start(certs) {
        Ok(s) => s,
        Err(e) => return Outcome::Inconclusive(format!("server: {e}")),
    };
    let id = match RawIdentity::from_certs(certs) { Ok(i) => i, Err(e) => return Outcome::Inconclusive(e.to_string()) };
    let conn = match raw_connect(server.addr, &id).await { Ok(c) => c, Err(e) => return Outcome::Inconclusive(e) };
    let mut keep = vec![];
    for (ti, mask) in c.topics.iter().enumerate() {
        let pubsub = mask & 3 != 0;
        let t = format!("topic-{ti}");
        let regs: Vec<Frame> = if pubsub {
            let mut v = vec![];
            if mask & 1 != 0 { v.push(reg_pub("c09ns", &t)); }
            if mask & 2 != 0 { v.push(reg_sub("c09ns", &t)); }
            v
        } else {
            let mut v = vec![];
            if mask & 4 != 0 { v.push(reg_rep("c09ns", &t)); }
            if mask & 8 != 0 { v.push(reg_req("c09ns", &t)); }
            v
        };
        for f in regs {
            let is_rep = matches!(f, Frame::RegisterReplier(_));
            match raw_open(&conn, f, Duration::from_secs(8)).await {
                Ok((s, FirstReply::Frame(Frame::Ok))) => {
                    let p = Peer::spawn(s, is_rep);
                    if c.traffic_first && !is_rep {
                        p.send(msg(b"hello".to_vec()));
                    }
                    keep.push(p);
                }
                Ok((_, r)) => return Outcome::fail("registration-refused", format!("{r:?}")),
                Err(e) => return Outcome::Inconclusive(e),
            }
        }
    }
    // let registrations and the little traffic settle, then measure an idle window
    tokio::time::sleep(Duration::from_millis(150)).await;
    let (c0, t0) = (cpu_time(), std::time::Instant::now());
    tokio::time::sleep(Duration::from_millis(400)).await;
    let (cpu, wall) = (cpu_time() - c0, t0.elapsed());
    drop(keep);
    // a spinning router uses one full core: >= 400 ms of CPU in a 400 ms window. Idle keep-alive
    // timers and the harness itself use a few milliseconds.
    if cpu > Duration::from_millis(250) {
        return Outcome::fail("busy-while-idle", format!("with idle topics {:?} the process used {cpu:?} of CPU during a {wall:?} window in which nothing was sent", c.topics));
    }
    let one_sided = c.topics.iter().any(|m| matches!(m & 15, 1 | 2 | 4 | 8));
    Outcome::pass(if one_sided { vec!["one-sided-topic"] } else { vec![] }, one_sided || c.topics.is_empty())
}

pub fn run(ctx: &mut Ctx) {
    let env = match Env::new() {
        Ok(e) => e,
        Err(e) => return ctx.inconclusive(format!("environment: {e}")),
    };
    // enumerated: every single-topic population, plus a few combinations
    let mut cases = vec![];
    for mask in [0u8, 1, 2, 3, 4, 8, 12] {
        for traffic_first in [false, true] {
            cases.push(Case { topics: if mask == 0 { vec![] } else { vec![mask] }, traffic_first });
        }
    }
    cases.push(Case { topics: vec![1, 2, 4, 8], traffic_first: true });
    cases.push(Case { topics: vec![4, 4, 8, 8, 1], traffic_first: false });
    let rt = &env.rt;
    let certs = env.certs.clone();
    // sequential on purpose: the CPU-time measurement is per process
    ctx.enumerate("idle-cpu-loopback", cases.into_iter(), |c| {
        crate::core::watchdog::tick();
        match crate::core::catch(|| rt.block_on(run_case(&certs, c))) {
            Ok(o) => o,
            Err(p) => Outcome::fail(format!("panic:{}", crate::core::panics::normalise(&p)), format!("panicked: {p}")),
        }
    });
}

pub fn replay(id: &str, case: &serde_json::Value) -> i32 {
    let env = match Env::new() {
        Ok(e) => e,
        Err(e) => {
            eprintln!("environment: {e}");
            return 2;
        }
    };
    crate::core::replay_case::<Case>(id, case, 1, |c| env.rt.block_on(run_case(&env.certs, c)))
}
