//! C16 (loopback leg): the real `Server::shutdown`. The in-process server listens for
//! ctrl-c; the harness raises SIGINT at itself while topics are idle, mid-delivery or
//! while registrations for brand-new topics are pouring in, and `listen()` must return.
use super::*;
use crate::core::{Ctx, Outcome};
use clap::Parser;
use selium_server::{args::UserArgs, server::Server};
use serde::{Deserialize, Serialize};

#[derive(Debug, Clone, Serialize, Deserialize, Hash, PartialEq, Eq)]
pub struct Case {
    /// established topics: population masks (1 pub, 2 sub, 4 replier, 8 requestor)
    pub topics: Vec<u8>,
    /// publishers keep sending while the signal arrives
    pub traffic: bool,
    /// connections that keep registering on brand-new topics while the signal arrives
    pub flood_conns: u8,
    pub delay_ms: u8,
}

pub async fn run_case(certs: &Certs, c: &Case) -> Outcome {
    let args = UserArgs::parse_from(["selium-server", "--bind-addr", "127.0.0.1:0", "--cert", &certs.server_cert(), "--key", &certs.server_key(), "--ca", &certs.server_ca(), "--max-idle-timeout", "30000"]);
    let server = match Server::try_from(args) {
        Ok(s) => s,
        Err(e) => return Outcome::Inconclusive(format!("server: {e}")),
    };
    let addr = match server.addr() { Ok(a) => a, Err(e) => return Outcome::Inconclusive(format!("{e}")) };
    let listen = tokio::spawn(async move { server.listen().await.map_err(|e| e.to_string()) });
    let id = match RawIdentity::from_certs(certs) { Ok(i) => i, Err(e) => return Outcome::Inconclusive(e.to_string()) };
    let conn = match raw_connect(addr, &id).await { Ok(c) => c, Err(e) => return Outcome::Inconclusive(e) };
    let mut keep = vec![];
    let mut senders = vec![];
    for (ti, mask) in c.topics.iter().take(4).enumerate() {
        let t = format!("topic-{ti}");
        let regs: Vec<Frame> = if mask & 3 != 0 {
            let mut v = vec![];
            if mask & 2 != 0 { v.push(reg_sub("c16ns", &t)); }
            if mask & 1 != 0 { v.push(reg_pub("c16ns", &t)); }
            v
        } else {
            let mut v = vec![];
            if mask & 4 != 0 { v.push(reg_rep("c16ns", &t)); }
            if mask & 8 != 0 { v.push(reg_req("c16ns", &t)); }
            v
        };
        for f in regs {
            let (is_rep, is_pub) = (matches!(f, Frame::RegisterReplier(_)), matches!(f, Frame::RegisterPublisher(_)));
            match raw_open(&conn, f, Duration::from_secs(8)).await {
                Ok((s, FirstReply::Frame(Frame::Ok))) => {
                    let p = Peer::spawn(s, is_rep);
                    if is_pub && c.traffic {
                        senders.push(p.out.clone());
                    }
                    keep.push(p);
                }
                Ok((_, r)) => return Outcome::fail("registration-refused", format!("{r:?}")),
                Err(e) => return Outcome::Inconclusive(e),
            }
        }
    }
    let traffic = tokio::spawn(async move {
        let mut n = 0u64;
        loop {
            for s in &senders {
                n += 1;
                let _ = s.send(msg(format!("m{n}-{}", "x".repeat(500)).into_bytes()));
            }
            tokio::time::sleep(Duration::from_millis(1)).await;
        }
    });
    // registrations for brand-new topics keep arriving, many at a time, from several
    // connections: the topic map is being extended at the very moment the signal arrives
    let mut flooders = vec![];
    for fc in 0..(c.flood_conns % 4) {
        let id2 = match RawIdentity::from_certs(certs) { Ok(i) => i, Err(_) => break };
        let Ok(conn) = raw_connect(addr, &id2).await else { break };
        for lane in 0..40u32 {
            let conn = conn.clone();
            flooders.push(tokio::spawn(async move {
                for k in 0..2000u32 {
                    let name = format!("t-{fc}-{lane}-{k}");
                    // publisher registrations: the server drops its unused send half at once and
                    // its receive half as soon as our end is reset, so the stream credit of the
                    // connection is recycled and the flood keeps going
                    let f = reg_pub("c16flood", &name);
                    match raw_open(&conn, f, Duration::from_millis(200)).await {
                        Ok((mut s, _)) => {
                            let _ = s.write().reset(quinn::VarInt::from_u32(0));
                        }
                        Err(_) => break,
                    }
                }
            }));
        }
    }
    tokio::time::sleep(Duration::from_millis(20 + (c.delay_ms % 60) as u64)).await;
    // the signal the server's listen() loop waits for (tokio's ctrl_c handler replaces the
    // default action, so the harness process itself survives it)
    unsafe { libc::raise(libc::SIGINT) };
    let res = tokio::time::timeout(Duration::from_secs(20), listen).await;
    traffic.abort();
    for f in &flooders {
        f.abort();
    }
    drop(keep);
    match res {
        Ok(Ok(Ok(()))) => {
            let mut l = vec![];
            if c.traffic { l.push("shutdown-mid-delivery"); }
            if c.flood_conns % 4 > 0 { l.push("shutdown-during-new-topic-registrations"); }
            if c.topics.iter().any(|m| matches!(m & 15, 1 | 2 | 4 | 8)) { l.push("one-sided-topic"); }
            Outcome::pass(l, c.traffic || c.flood_conns % 4 > 0)
        }
        Ok(Ok(Err(e))) => Outcome::fail("shutdown-error", format!("listen() returned an error after the shutdown signal: {e}")),
        Ok(Err(e)) => Outcome::fail("server-task-panicked", format!("{e}")),
        Err(_) => Outcome::fail("shutdown-hang", format!("20 s after the shutdown signal the server's listen() has not returned (topics {:?}, traffic {}, {} flooding connection(s))", c.topics, c.traffic, c.flood_conns % 4)),
    }
}

pub fn run(ctx: &mut Ctx) {
    let env = match Env::new() {
        Ok(e) => e,
        Err(e) => return ctx.inconclusive(format!("environment: {e}")),
    };
    let n = ctx.tier.pick(12usize, 120);
    let seed = ctx.seed;
    let mut cases = vec![];
    for i in 0..n {
        let r = crate::core::mix(seed, i as u64 + 77);
        let nt = (r % 4) as usize;
        let topics: Vec<u8> = (0..nt).map(|k| [1u8, 2, 3, 4, 8, 12, 3, 3][((r >> (8 + 4 * k)) % 8) as usize]).collect();
        cases.push(Case { topics, traffic: (r >> 3) & 1 == 0, flood_conns: ((r >> 5) % 4) as u8, delay_ms: (r >> 40) as u8 });
    }
    let rt = &env.rt;
    let certs = env.certs.clone();
    // sequential: SIGINT is process-wide, only one server may be listening at a time
    ctx.enumerate("sigint-loopback", cases.into_iter(), |c| {
        crate::core::watchdog::tick();
        match crate::core::catch(|| rt.block_on(run_case(&certs, c))) {
            Ok(o) => o,
            Err(p) => Outcome::fail(format!("panic:{}", crate::core::panics::normalise(&p)), format!("panicked: {p}")),
        }
    });
}

pub fn replay(id: &str, case: &serde_json::Value) -> i32 {
    let env = match Env::new() {
        Ok(e) => e,
        Err(e) => {
            eprintln!("environment: {e}");
            return 2;
        }
    };
    crate::core::replay_case::<Case>(id, case, 3, |c| env.rt.block_on(run_case(&env.certs, c)))
}
