//! C02 (loopback leg): replies under *real* QUIC back-pressure. Raw requestors on separate
//! connections pause and resume reading while a raw replier answers every request with a
//! payload large enough that the total exceeds a stream's flow-control window.
use super::*;
use crate::core::{Ctx, Outcome};
use proptest::prelude::*;
use selium_protocol::MessagePayload;
use serde::{Deserialize, Serialize};
use std::collections::HashMap;

#[derive(Debug, Clone, Serialize, Deserialize, Hash, PartialEq, Eq)]
pub struct Case {
    pub nreq: u8,
    /// requests per requestor
    pub count: u16,
    /// reply size class
    pub size: u8,
    /// per requestor: (replies to read before pausing, pause ms), cycled
    pub pauses: Vec<(u16, u8)>,
    /// requestors put their own `cid` header on requests (must be overwritten)
    pub forge: bool,
}

pub async fn run_case(addr: SocketAddr, id: &RawIdentity, c: &Case) -> Outcome {
    match tokio::time::timeout(Duration::from_secs(120), run_inner(addr, id, c)).await {
        Ok(o) => o,
        Err(_) => Outcome::Inconclusive("case exceeded 120 s".into()),
    }
}

async fn run_inner(addr: SocketAddr, id: &RawIdentity, c: &Case) -> Outcome {
    let tn = format!("case-{}", fresh_id());
    let ns = "c02ns";
    let nreq = 2 + (c.nreq % 2) as usize;
    let size = [2_000usize, 16_000, 48_000][(c.size % 3) as usize];
    let count = (10 + (c.count % 200) as usize).min((6 << 20) / size).max(5);
    // the replier: answers every request with "re:<body>" padded to `size`
    let rconn = match raw_connect(addr, id).await { Ok(c) => c, Err(e) => return Outcome::Inconclusive(e) };
    let mut rs = match raw_open(&rconn, reg_rep(ns, &tn), Duration::from_secs(8)).await {
        Ok((s, FirstReply::Frame(Frame::Ok))) => s,
        Ok((_, r)) => return Outcome::fail("replier-refused", format!("{r:?}")),
        Err(e) => return Outcome::Inconclusive(e),
    };
    let replier = tokio::spawn(async move {
        let mut answered = 0usize;
        while let Some(Ok(f)) = rs.next().await {
            if let Frame::Message(m) = f {
                let mut b = b"re:".to_vec();
                b.extend_from_slice(&m.message);
                b.push(b'|');
                let pad = if m.message.starts_with(b"probe") { 0 } else { size };
                b.extend(std::iter::repeat(b'z').take(pad));
                if rs.send(Frame::Message(MessagePayload { headers: m.headers, message: b.into() })).await.is_err() {
                    break;
                }
                answered += 1;
            }
        }
        answered
    });
    // requestors, each on its own connection
    let mut streams = vec![];
    for _ in 0..nreq {
        let cq = match raw_connect(addr, id).await { Ok(c) => c, Err(e) => return Outcome::Inconclusive(e) };
        match raw_open(&cq, reg_req(ns, &tn), Duration::from_secs(8)).await {
            Ok((s, FirstReply::Frame(Frame::Ok))) => streams.push((cq, s)),
            Ok((_, r)) => return Outcome::fail("requestor-refused", format!("{r:?}")),
            Err(e) => return Outcome::Inconclusive(e),
        }
    }
    // settle: the replier is bound once a probe is answered (requests before that may be dropped)
    for (qi, (_, s)) in streams.iter_mut().enumerate() {
        let mut ok = false;
        for k in 0..300 {
            let mut h = HashMap::new();
            h.insert("req_id".to_string(), format!("p{k}"));
            if s.send(Frame::Message(MessagePayload { headers: Some(h), message: format!("probe{qi}-{k}").into_bytes().into() })).await.is_err() {
                return Outcome::Inconclusive("probe send failed".into());
            }
            match tokio::time::timeout(Duration::from_millis(if k < 20 { 30 } else { 200 }), s.next()).await {
                Ok(Some(Ok(_))) => {
                    ok = true;
                    break;
                }
                Ok(_) => return Outcome::Inconclusive("requestor stream ended during settle".into()),
                Err(_) => {}
            }
        }
        if !ok {
            return Outcome::Inconclusive("settle: the replier never answered".into());
        }
    }
    let mut tasks = vec![];
    for (qi, (cq, s)) in streams.into_iter().enumerate() {
        let (mut w, mut r) = s.split();
        let forge = c.forge;
        let writer = tokio::spawn(async move {
            for n in 0..count {
                let mut h = HashMap::new();
                h.insert("req_id".to_string(), format!("{n}"));
                if forge {
                    // pretend to be another requestor
                    h.insert("cid".to_string(), format!("{}", (qi + 1) % 3));
                }
                if w.send(Frame::Message(MessagePayload { headers: Some(h), message: format!("Q{qi}#{n}#").into_bytes().into() })).await.is_err() {
                    return Err(format!("requestor {qi}: sending request {n} failed"));
                }
            }
            // keep the send half open
            tokio::time::sleep(Duration::from_secs(60)).await;
            drop(w);
            Ok(())
        });
        let pauses = c.pauses.clone();
        let reader = tokio::spawn(async move {
            let _keep = cq;
            let mut got: Vec<(usize, usize, Option<String>, bool)> = vec![];
            let mut next_pause = 0usize;
            let mut pi = qi;
            let mut paused = 0usize;
            while got.len() < count {
                if !pauses.is_empty() && got.len() >= next_pause {
                    let (after, ms) = pauses[pi % pauses.len()];
                    pi += 1;
                    next_pause = got.len() + 1 + after as usize % 60;
                    tokio::time::sleep(Duration::from_millis((ms % 80) as u64)).await;
                    paused += 1;
                }
                match tokio::time::timeout(Duration::from_secs(25), r.next()).await {
                    Ok(Some(Ok(Frame::Message(m)))) => {
                        let b = String::from_utf8_lossy(&m.message[..m.message.len().min(40)]).into_owned();
                        if b.starts_with("re:probe") {
                            continue;
                        }
                        let parsed = b.strip_prefix("re:Q").and_then(|x| { let mut it = x.split('#'); Some((it.next()?.parse::<usize>().ok()?, it.next()?.parse::<usize>().ok()?)) });
                        let has_cid = m.headers.as_ref().map_or(false, |h| h.contains_key("cid"));
                        let rid = m.headers.as_ref().and_then(|h| h.get("req_id").cloned());
                        match parsed {
                            Some((q, n)) => got.push((q, n, rid, has_cid)),
                            None => return (got, Err(format!("unparseable reply {b:?}")), paused),
                        }
                    }
                    Ok(Some(Ok(f))) => return (got, Err(format!("unexpected frame {f:?}")), paused),
                    Ok(Some(Err(e))) => return (got, Err(format!("stream error {e}")), paused),
                    Ok(None) => return (got, Err("stream ended".into()), paused),
                    Err(_) => return (got, Err("no reply for 25 s".into()), paused),
                }
            }
            (got, Ok(()), paused)
        });
        tasks.push((qi, writer, reader));
    }
    let mut paused_total = 0;
    for (qi, writer, reader) in tasks {
        let (got, st, paused) = match reader.await {
            Ok(x) => x,
            Err(e) => return Outcome::Inconclusive(format!("reader task: {e}")),
        };
        writer.abort();
        paused_total += paused;
        if let Err(e) = st {
            return Outcome::fail("reply-lost-under-backpressure", format!("requestor {qi} kept reading but received only {} of {count} replies: {e}", got.len()));
        }
        let mut seen = vec![0usize; count];
        for (q, n, rid, has_cid) in &got {
            if *q != qi {
                return Outcome::fail("reply-misrouted", format!("requestor {qi} received the reply to requestor {q}'s request #{n}"));
            }
            if *has_cid {
                return Outcome::fail("tag-not-stripped", format!("requestor {qi}: reply to #{n} still carries the routing tag"));
            }
            if rid.as_deref() != Some(&n.to_string()) {
                return Outcome::fail("reply-headers-damaged", format!("requestor {qi}: reply to #{n} has req_id {rid:?}"));
            }
            if *n < count {
                seen[*n] += 1;
            }
        }
        if let Some(n) = seen.iter().position(|c| *c != 1) {
            return Outcome::fail(if seen[n] == 0 { "reply-lost-under-backpressure" } else { "reply-duplicated" }, format!("requestor {qi}: reply to request #{n} arrived {} times", seen[n]));
        }
    }
    replier.abort();
    let mut labels = vec![];
    if paused_total > 0 { labels.push("requestor-paused-reading"); }
    if count * size > 1_300_000 { labels.push("more-than-a-stream-window-of-replies"); }
    if c.forge { labels.push("requestor-supplied-routing-tag"); }
    Outcome::pass(labels, paused_total > 0 && count * size > 1_300_000)
}

pub fn strategy() -> BoxedStrategy<Case> {
    (0u8..2, any::<u16>(), 0u8..3, proptest::collection::vec((any::<u16>(), any::<u8>()), 0..4), any::<bool>())
        .prop_map(|(nreq, count, size, pauses, forge)| Case { nreq, count, size, pauses, forge })
        .boxed()
}

pub fn run(ctx: &mut Ctx) {
    let env = match Env::new() {
        Ok(e) => e,
        Err(e) => return ctx.inconclusive(format!("environment: {e}")),
    };
    let server = match env.rt.block_on(async { TestServer::start(&env.certs) }) {
        Ok(s) => s,
        Err(e) => return ctx.inconclusive(format!("server start: {e}")),
    };
    let addr = server.addr;
    let id = match RawIdentity::from_certs(&env.certs) {
        Ok(i) => std::sync::Arc::new(i),
        Err(e) => return ctx.inconclusive(format!("certs: {e}")),
    };
    let handle = env.rt.handle().clone();
    let saved = (ctx.workers, ctx.shrink_iters);
    ctx.shrink_iters = 10;
    ctx.workers = ctx.workers.min(4);
    ctx.search("backpressure-loopback", strategy, ctx.tier.pick(40, 800), true, move |c: &Case| {
        crate::core::watchdog::tick();
        match crate::core::catch(|| handle.block_on(run_case(addr, &id, c))) {
            Ok(o) => o,
            Err(p) => Outcome::fail(format!("panic:{}", crate::core::panics::normalise(&p)), format!("panicked: {p}")),
        }
    });
    ctx.workers = saved.0;
    ctx.shrink_iters = saved.1;
    drop(server);
}

pub fn replay(id: &str, case: &serde_json::Value) -> i32 {
    let env = match Env::new() {
        Ok(e) => e,
        Err(e) => {
            eprintln!("environment: {e}");
            return 2;
        }
    };
    let server = env.rt.block_on(async { TestServer::start(&env.certs) }).expect("server");
    let rid = RawIdentity::from_certs(&env.certs).expect("certs");
    let addr = server.addr;
    crate::core::replay_case::<Case>(id, case, 2, |c| match crate::core::catch(|| env.rt.block_on(run_case(addr, &rid, c))) { Ok(o) => o, Err(p) => Outcome::fail("panic", p) })
}
