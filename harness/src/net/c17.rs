//! C17 — a stalled topic cannot block registration or traffic on other topics.
//! Fresh real server per case; topic A is stalled by a subscriber that stops reading while
//! publishers flood it, then registrations are queued on A and topic B must still work.
use super::*;
use crate::core::{Ctx, Outcome};
use proptest::prelude::*;
use selium::prelude::*;
use selium::std::codecs::StringCodec;
use serde::{Deserialize, Serialize};
use std::time::Instant;

pub const QUEUE_CAP: usize = 101;

#[derive(Debug, Clone, Serialize, Deserialize, Hash, PartialEq, Eq)]
pub struct Case {
    /// registrations on A after the stall has set in
    pub after: u16,
    /// registrations on A before the stall (the router still adopts these)
    pub before: u8,
    pub npubs: u8,
    /// mix publisher registrations among the queued ones (else subscribers only)
    pub mixed: bool,
    /// frames the stalled subscriber reads before it stops
    pub reads: u8,
    pub seed: u16,
    /// the stalled subscriber's connection has a small connection-level receive window, so
    /// the whole connection runs out of credit; it then registers one more stream, whose
    /// reply the server cannot deliver
    #[serde(default)]
    pub small_window: bool,
    /// what the out-of-credit client registers next: 0 a subscriber on topic B, 1 a replier on
    /// the stalled pub/sub topic (wrong pattern: must be refused), 2 an invalid name (must be
    /// refused), 3 a non-registration frame
    #[serde(default)]
    pub hung_kind: u8,
}

async fn reg(conn: &quinn::Connection, f: Frame, dl: Duration) -> Option<BiStream> {
    match raw_open(conn, f, dl).await {
        Ok((s, FirstReply::Frame(Frame::Ok))) => Some(s),
        _ => None,
    }
}

async fn round_trip_raw(addr: SocketAddr, id: &RawIdentity, ns: &str, t: &str, dl: Duration) -> Result<Duration, String> {
    let t0 = Instant::now();
    let c = raw_connect(addr, id).await?;
    let mut s = reg(&c, reg_sub(ns, t), dl).await.ok_or("subscriber registration not answered Ok")?;
    let mut p = reg(&c, reg_pub(ns, t), dl).await.ok_or("publisher registration not answered Ok")?;
    let end = Instant::now() + dl;
    let mut k = 0;
    loop {
        k += 1;
        p.send(msg(format!("probe{k}").into_bytes())).await.map_err(|e| e.to_string())?;
        match tokio::time::timeout(Duration::from_millis(50), s.next()).await {
            Ok(Some(Ok(_))) => return Ok(t0.elapsed()),
            Ok(o) => return Err(format!("subscriber stream ended: {:?}", o.map(|x| x.map(|_| ()).map_err(|e| e.to_string())))),
            Err(_) => {}
        }
        if Instant::now() > end {
            return Err("registrations were answered Ok but no message was routed before the deadline".into());
        }
    }
}

async fn round_trip_client(addr: SocketAddr, certs: &Certs, topic: &str, dl: Duration) -> Result<(), String> {
    let fut = async {
        let cl = client(addr, certs).await?;
        let mut s = cl.subscriber(topic).with_decoder(StringCodec).open().await.map_err(|e| format!("subscriber open: {e}"))?;
        let mut p = cl.publisher(topic).with_encoder(StringCodec).open().await.map_err(|e| format!("publisher open: {e}"))?;
        loop {
            p.send("probe".to_string()).await.map_err(|e| format!("send: {e}"))?;
            match tokio::time::timeout(Duration::from_millis(50), s.next()).await {
                Ok(Some(Ok(_))) => return Ok(()),
                Ok(o) => return Err(format!("subscriber ended: {:?}", o.map(|x| x.map(|_| ()).map_err(|e| e.to_string())))),
                Err(_) => {}
            }
        }
    };
    match tokio::time::timeout(dl, fut).await {
        Ok(r) => r,
        Err(_) => Err("client-library publisher/subscriber on the other topic could not open and exchange a message before the deadline".into()),
    }
}

/// A `Client` opens a subscriber on the stalled topic (left running, whatever becomes of it)
/// and then a publisher/subscriber pair on another topic: the second must work.
async fn same_client_probe(addr: SocketAddr, certs: &Certs, stalled: &str, other: &str, dl: Duration) -> Result<(), String> {
    let cl = client(addr, certs).await?;
    let b = cl.subscriber(stalled).with_decoder(StringCodec);
    let waiting = tokio::spawn(async move { b.open().await.map_err(|e| e.to_string()) });
    tokio::time::sleep(Duration::from_millis(150)).await;
    let fut = async {
        let mut s = cl.subscriber(other).with_decoder(StringCodec).open().await.map_err(|e| format!("subscriber open: {e}"))?;
        let mut p = cl.publisher(other).with_encoder(StringCodec).open().await.map_err(|e| format!("publisher open: {e}"))?;
        loop {
            p.send("probe".to_string()).await.map_err(|e| format!("send: {e}"))?;
            match tokio::time::timeout(Duration::from_millis(50), s.next()).await {
                Ok(Some(Ok(_))) => return Ok(()),
                Ok(o) => return Err(format!("subscriber ended: {:?}", o.map(|x| x.map(|_| ()).map_err(|e| e.to_string())))),
                Err(_) => {}
            }
        }
    };
    let r = match tokio::time::timeout(dl, fut).await {
        Ok(r) => r,
        Err(_) => Err("a publisher/subscriber pair on the other topic could not be opened and exchange a message before the deadline".into()),
    };
    waiting.abort();
    r
}

pub async fn run_case(certs: &Certs, c: &Case) -> Outcome {
    match tokio::time::timeout(Duration::from_secs(150), run_inner(certs, c)).await {
        Ok(o) => o,
        Err(_) => Outcome::Inconclusive("case exceeded 150 s".into()),
    }
}

async fn run_inner(certs: &Certs, c: &Case) -> Outcome {
    let server = match TestServer::start(certs) {
        Ok(s) => s,
        Err(e) => return Outcome::Inconclusive(format!("server: {e}")),
    };
    let addr = server.addr;
    let id = match RawIdentity::from_certs(certs) {
        Ok(i) => i,
        Err(e) => return Outcome::Inconclusive(format!("certs: {e}")),
    };
    let (ns_a, ns_b) = ("stalled", "healthy");
    // control exchange on B before the stall: proves the path works in this very case
    if let Err(e) = round_trip_raw(addr, &id, ns_b, "bbb", Duration::from_secs(15)).await {
        return Outcome::Inconclusive(format!("control exchange on topic B failed before any stall: {e}"));
    }
    let nq = c.after as usize;
    let before = (c.before as usize).min(90);
    let npubs = 1 + (c.npubs % 3) as usize;
    let c1 = match raw_connect(addr, &id).await {
        Ok(c) => c,
        Err(e) => return Outcome::Inconclusive(e),
    };
    // the stalled subscriber lives on its own connection when that connection is to run out
    // of credit as a whole
    let c_sub = if c.small_window {
        match raw_connect_window(addr, &id, 192 * 1024).await {
            Ok(c) => c,
            Err(e) => return Outcome::Inconclusive(e),
        }
    } else {
        c1.clone()
    };
    let Some(mut stalled_sub) = reg(&c_sub, reg_sub(ns_a, "aaa"), Duration::from_secs(10)).await else {
        return Outcome::Inconclusive("stalled subscriber could not register".into());
    };
    let mut conns = vec![];
    // in a third of the cases every queueing peer has a connection of its own (up to 200): the
    // crowd then also weighs on whatever the server keeps per connection, not only per stream
    let per_peer = c.seed % 3 == 0;
    let nconns = if per_peer { (before + nq).clamp(1, 200) } else { (before + nq) / 60 + 1 };
    for _ in 0..nconns {
        match raw_connect(addr, &id).await {
            Ok(c) => conns.push(c),
            // a crowd member that is turned away is the crowd's problem, not topic B's
            Err(_) if per_peer && !conns.is_empty() => break,
            Err(e) => return Outcome::Inconclusive(e),
        }
    }
    let crowd_conns = conns.len();
    let mut x = c.seed as u64 | 1 << 20;
    let mut coin = move || {
        x = x.wrapping_mul(6364136223846793005).wrapping_add(1442695040888963407);
        (x >> 40) & 1 == 0
    };
    let mut held = vec![];
    for i in 0..before {
        let f = if c.mixed && coin() { reg_pub(ns_a, "aaa") } else { reg_sub(ns_a, "aaa") };
        if let Some(s) = reg(&conns[i % conns.len()], f, Duration::from_secs(10)).await {
            held.push(s);
        }
    }
    // flood A until the publishers themselves are back-pressured: the router is stuck
    let mut pubs = vec![];
    for _ in 0..npubs {
        match reg(&c1, reg_pub(ns_a, "aaa"), Duration::from_secs(10)).await {
            Some(p) => pubs.push(p),
            None => return Outcome::Inconclusive("flooding publisher could not register".into()),
        }
    }
    for _ in 0..(c.reads % 4) {
        let _ = tokio::time::timeout(Duration::from_millis(200), stalled_sub.next()).await;
    }
    let chunk = vec![0u8; 64 * 1024];
    let mut sent = 0usize;
    let mut stalled = false;
    'f: for _ in 0..400 {
        for p in pubs.iter_mut() {
            match tokio::time::timeout(Duration::from_millis(400), p.send(msg(chunk.clone()))).await {
                Ok(Ok(())) => sent += 1,
                _ => {
                    stalled = true;
                    break 'f;
                }
            }
        }
    }
    // registrations that arrive after the stall stay in the router's queue
    let mut answered_after = 0usize;
    let mut unanswered_in_a_row = 0usize;
    for i in 0..nq {
        let f = if c.mixed && coin() { reg_pub(ns_a, "aaa") } else { reg_sub(ns_a, "aaa") };
        // once registrations stop being answered (a dead-locked server) do not wait long for
        // each of the remaining ones: they are still made, which is what matters
        let wait = if unanswered_in_a_row >= 2 { Duration::from_millis(40) } else { Duration::from_secs(3) };
        match raw_open(&conns[(before + i) % conns.len()], f, wait).await {
            Ok((s, FirstReply::Frame(Frame::Ok))) => {
                held.push(s);
                answered_after += 1;
                unanswered_in_a_row = 0;
            }
            Ok((s, _)) => {
                held.push(s);
                unanswered_in_a_row += 1;
            }
            Err(_) => unanswered_in_a_row += 1,
        }
    }
    let mut hung_stream = None;
    if c.small_window && stalled {
        // one more registration from the client whose connection has no credit left: its
        // reply cannot be delivered, which must not matter to anybody else
        if let Ok(bi) = tokio::time::timeout(Duration::from_secs(5), c_sub.open_bi()).await {
            if let Ok(bi) = bi {
                let mut s = BiStream::from(bi);
                let f = match c.hung_kind % 4 {
                    0 => reg_sub(ns_b, "eee"),
                    1 => reg_rep(ns_a, "aaa"),
                    2 => reg_sub("ab", "x"),
                    _ => msg(b"not-a-registration".to_vec()),
                };
                let _ = tokio::time::timeout(Duration::from_secs(2), s.send(f)).await;
                hung_stream = Some(s);
            }
        }
        tokio::time::sleep(Duration::from_millis(100)).await;
    }
    // ---- topic B must still register and route ----
    let dl = Duration::from_secs(12);
    let raw = round_trip_raw(addr, &id, ns_b, "bbb", dl).await;
    let ctx_s = format!("topic A stalled={stalled} after {sent}x64 KiB, {before} registrations before and {nq} after the stall ({answered_after} answered)");
    if let Err(e) = raw {
        return Outcome::fail("other-topic-blocked", format!("{ctx_s}: a raw publisher/subscriber pair on topic B: {e}"));
    }
    // a client whose publisher is stuck on the stalled topic multiplexes its other streams
    // over the same connection: those must keep working too
    {
        let shared = async {
            let mut s = reg(&c1, reg_sub(ns_b, "ddd"), dl).await.ok_or("subscriber registration on the shared connection not answered Ok")?;
            let mut p = reg(&c1, reg_pub(ns_b, "ddd"), dl).await.ok_or("publisher registration on the shared connection not answered Ok")?;
            let end = Instant::now() + dl;
            loop {
                p.send(msg(b"shared-probe".to_vec())).await.map_err(|e| e.to_string())?;
                match tokio::time::timeout(Duration::from_millis(50), s.next()).await {
                    Ok(Some(Ok(_))) => return Ok::<(), String>(()),
                    Ok(o) => return Err(format!("subscriber stream ended: {:?}", o.map(|x| x.map(|_| ()).map_err(|e| e.to_string())))),
                    Err(_) => {}
                }
                if Instant::now() > end {
                    return Err("answered Ok but no message was routed before the deadline".to_string());
                }
            }
        };
        match tokio::time::timeout(dl + Duration::from_secs(2), shared).await {
            Ok(Ok(())) => {}
            Ok(Err(e)) => return Outcome::fail("other-topic-blocked-on-shared-connection", format!("{ctx_s}: a publisher/subscriber pair on topic B opened over the connection that also carries the stuck publishers: {e}")),
            Err(_) => return Outcome::fail("other-topic-blocked-on-shared-connection", format!("{ctx_s}: opening streams for topic B over the connection that also carries the stuck publishers did not complete")),
        }
    }
    // ... and over the connections that queued registrations on the stalled topic
    for (ci, cq) in conns.iter().enumerate().take(3) {
        let over = async {
            let mut s = reg(cq, reg_sub(ns_b, &format!("qqq{ci}")), dl).await.ok_or("subscriber registration not answered Ok")?;
            let mut p = reg(cq, reg_pub(ns_b, &format!("qqq{ci}")), dl).await.ok_or("publisher registration not answered Ok")?;
            let end = Instant::now() + dl;
            loop {
                p.send(msg(b"queue-conn-probe".to_vec())).await.map_err(|e| e.to_string())?;
                match tokio::time::timeout(Duration::from_millis(50), s.next()).await {
                    Ok(Some(Ok(_))) => return Ok::<(), String>(()),
                    Ok(o) => return Err(format!("subscriber stream ended: {:?}", o.map(|x| x.map(|_| ()).map_err(|e| e.to_string())))),
                    Err(_) => {}
                }
                if Instant::now() > end {
                    return Err("answered Ok but no message was routed before the deadline".to_string());
                }
            }
        };
        match tokio::time::timeout(dl + Duration::from_secs(2), over).await {
            Ok(Ok(())) => {}
            Ok(Err(e)) => return Outcome::fail("other-topic-blocked-on-queueing-connection", format!("{ctx_s}: a publisher/subscriber pair on topic B opened over connection {ci}, which also has registrations queued on the stalled topic: {e}")),
            Err(_) => return Outcome::fail("other-topic-blocked-on-queueing-connection", format!("{ctx_s}: opening streams for topic B over connection {ci}, which also has registrations queued on the stalled topic, did not complete")),
        }
    }
    drop(hung_stream);
    if let Err(e) = same_client_probe(addr, certs, "/stalled/aaa", "/healthy/fff", dl).await {
        return Outcome::fail("other-topic-blocked-for-a-client-waiting-on-the-stalled-topic", format!("{ctx_s}: a client-library Client first opens a subscriber on the stalled topic, then uses topic B: {e}"));
    }
    if let Err(e) = round_trip_client(addr, certs, "/healthy/ccc", dl).await {
        return Outcome::fail("other-topic-blocked-client", format!("{ctx_s}: {e}"));
    }
    drop(held);
    let mut labels = vec![];
    if stalled { labels.push("stall-reached"); }
    if nq > QUEUE_CAP { labels.push("queued>capacity"); }
    if nq > 0 && nq <= QUEUE_CAP { labels.push("queued<=capacity"); }
    if c.mixed { labels.push("mixed-registration-kinds"); }
    if c.small_window { labels.push("stalled-client-connection-out-of-credit"); }
    if crowd_conns >= 130 { labels.push("crowd-on->=130-connections"); }
    Outcome::pass(labels, stalled && nq > QUEUE_CAP)
}

pub fn strategy() -> BoxedStrategy<Case> {
    let after = prop_oneof![
        1 => Just(0u16),
        1 => Just(50u16),
        2 => 99u16..105,
        3 => Just(150u16),
        2 => Just(260u16),
        1 => Just(400u16),
        1 => Just(520u16),
        1 => 105u16..300,
    ];
    (after, prop_oneof![2 => Just(0u8), 1 => 1u8..90], 0u8..3, any::<bool>(), 0u8..4, any::<u16>(), (prop::bool::weighted(0.4), 0u8..4))
        .prop_map(|(after, before, npubs, mixed, reads, seed, (small_window, hung_kind))| Case { after, before, npubs, mixed, reads, seed, small_window, hung_kind })
        .boxed()
}

pub fn run(ctx: &mut Ctx) {
    ctx.rule = "fresh real server per case; topic A: a raw subscriber that stops reading after 0-3 frames, 1-3 publishers flooding 64 KiB messages until they are back-pressured themselves (the observable sign the router is stuck), b in 0..90 registrations on A before the stall and n in {0, 50, 99..104, 150, 260, 400, 520, random} after it (generated kinds, spread over several connections; in a third of the cases every queueing peer has a connection of its own, up to 200); then topic B: a raw publisher/subscriber pair and a client-library publisher/subscriber pair - also on a Client that has just asked for a subscriber on the stalled topic - must register and exchange a message within 12 s (a control exchange on B succeeded in the same case before the stall); non-trivial = the stall was reached and more registrations than the router's queue holds (101) were made after it".into();
    ctx.assumptions.push("one stall mechanism (a non-reading subscriber); the failure mode is a deterministic dead-lock, so the deadline is not a race".into());
    let env = match Env::new() {
        Ok(e) => e,
        Err(e) => return ctx.inconclusive(format!("environment: {e}")),
    };
    let certs = env.certs.clone();
    let handle = env.rt.handle().clone();
    ctx.shrink_iters = 6;
    ctx.workers = ctx.workers.min(4);
    ctx.search("stall-scripts", strategy, ctx.tier.pick(48, 400), true, move |c: &Case| {
        crate::core::watchdog::tick();
        match crate::core::catch(|| handle.block_on(run_case(&certs, c))) {
            Ok(o) => o,
            Err(p) => Outcome::fail(format!("panic:{}", crate::core::panics::normalise(&p)), format!("panicked: {p}")),
        }
    });
}

pub fn replay(id: &str, case: &serde_json::Value) -> i32 {
    let env = match Env::new() {
        Ok(e) => e,
        Err(e) => {
            eprintln!("environment: {e}");
            return 2;
        }
    };
    crate::core::replay_case::<Case>(id, case, 2, |c| match crate::core::catch(|| env.rt.block_on(run_case(&env.certs, c))) { Ok(o) => o, Err(p) => Outcome::fail(format!("panic:{}", crate::core::panics::normalise(&p)), format!("panicked: {p}")) })
}
