//! C11 — every stream open is answered truthfully; no frame sequence breaks the server.
//! Real server (fresh per case), raw wire peers, panic hook, post-hoc service probes.
use super::*;
use crate::core::{panics, Ctx, Outcome};
use proptest::prelude::*;
use selium::prelude::*;
use selium::std::codecs::StringCodec;
use selium_protocol::error_codes::{INVALID_TOPIC_NAME, REPLIER_ALREADY_BOUND};
use selium_protocol::{ErrorPayload, MessagePayload};
use serde::{Deserialize, Serialize};
use std::collections::HashMap;

pub const LIMIT: usize = 1024 * 1024;
const NS: &str = "c11ns";

#[derive(Debug, Clone, Copy, Serialize, Deserialize, Hash, PartialEq, Eq)]
pub enum First {
    RegPub,
    RegSub,
    RegRep,
    RegReq,
    /// registration whose name violates the grammar (variant picks how)
    BadName { role: u8, how: u8 },
    Message,
    Batch,
    Error,
    Ok,
    /// only part of a subscriber registration's bytes is written; the stream stays open and
    /// is completed at the end of the script
    Partial { cut: u8 },
}

#[derive(Debug, Clone, Copy, Serialize, Deserialize, Hash, PartialEq, Eq)]
pub enum Follow {
    /// a frame of one of the eight kinds (small)
    Kind(u8),
    /// Message whose encoding is `slack` bytes under the wire limit
    NearLimit { slack: u8 },
    /// reply-like Message with a bogus routing tag
    BadTag(u8),
}

#[derive(Debug, Clone, Serialize, Deserialize, Hash, PartialEq, Eq)]
pub struct StreamScript {
    pub topic: u8,
    pub first: First,
    pub follow: Vec<Follow>,
}

#[derive(Debug, Clone, Serialize, Deserialize, Hash, PartialEq, Eq)]
pub struct Case {
    /// topics used beforehand: (topic, true = request/reply pattern)
    pub pre: Vec<(u8, bool)>,
    pub streams: Vec<StreamScript>,
}

fn tname(t: u8) -> String {
    format!("topic-{}", t % 3)
}

fn small_frame(kind: u8, t: u8) -> Frame {
    match kind % 8 {
        0 => reg_pub(NS, &tname(t)),
        1 => reg_sub(NS, &tname(t)),
        2 => reg_rep(NS, &tname(t)),
        3 => reg_req(NS, &tname(t)),
        4 => {
            let mut h = HashMap::new();
            h.insert("req_id".to_string(), "7".to_string());
            Frame::Message(MessagePayload { headers: Some(h), message: "junk-message".into() })
        }
        5 => Frame::BatchMessage(selium_protocol::utils::encode_message_batch(vec!["a".into(), "bb".into()])),
        6 => Frame::Error(ErrorPayload { code: 99, message: "peer-sent-error".into() }),
        _ => Frame::Ok,
    }
}

fn near_limit(slack: u8) -> Frame {
    let mut h = HashMap::new();
    h.insert("req_id".to_string(), "1".to_string());
    let probe = Frame::Message(MessagePayload { headers: Some(h.clone()), message: bytes::Bytes::new() });
    let base = probe.get_length().unwrap() as usize;
    let n = LIMIT - base - (slack as usize % 64);
    Frame::Message(MessagePayload { headers: Some(h), message: vec![b'N'; n].into() })
}

fn bad_name(role: u8, how: u8) -> Frame {
    let (ns, t): (String, String) = match how % 8 {
        0 => ("ab".into(), "topic".into()),
        1 => ("selium".into(), "topic".into()),
        2 => ("seliumx".into(), "topic".into()),
        3 => ("name space".into(), "topic".into()),
        4 => ("namespace".into(), "to".into()),
        5 => ("namespace".into(), "t/x/y".into()),
        6 => ("n".repeat(65), "topic".into()),
        _ => ("namespace".into(), "bad!topic".into()),
    };
    match role % 4 {
        0 => reg_pub(&ns, &t),
        1 => reg_sub(&ns, &t),
        2 => reg_rep(&ns, &t),
        _ => reg_req(&ns, &t),
    }
}

#[derive(Clone, Copy, PartialEq, Debug)]
enum Pattern {
    PubSub,
    ReqRep,
}

struct World {
    conn: quinn::Connection,
    kind: HashMap<u8, Pattern>,
    /// bound echo replier per topic
    replier: HashMap<u8, Peer>,
    /// keep helper peers alive
    keep: Vec<Peer>,
    /// streams with an unfinished first frame: (stream halves, remaining bytes, description)
    partial: Vec<(quinn::SendStream, quinn::RecvStream, Vec<u8>, String)>,
}

const W: Duration = Duration::from_secs(8);

async fn open_peer(w: &World, first: Frame, echo: bool) -> Result<(Peer, FirstReply), String> {
    let (s, r) = raw_open(&w.conn, first, W).await?;
    Ok((Peer::spawn(s, echo), r))
}

async fn ensure_replier(w: &mut World, t: u8) -> Result<(), Outcome> {
    if w.replier.contains_key(&t) {
        return Ok(());
    }
    let (p, r) = open_peer(w, reg_rep(NS, &tname(t)), true).await.map_err(Outcome::Inconclusive)?;
    if !matches!(r, FirstReply::Frame(Frame::Ok)) {
        return Err(Outcome::fail("helper-replier-refused", format!("a well-behaved replier on {} was answered {r:?}", tname(t))));
    }
    w.replier.insert(t, p);
    w.kind.insert(t, Pattern::ReqRep);
    // `Ok` is sent before the socket reaches the router, so it does not yet mean "bound":
    // a completed exchange does (otherwise a replier opened right afterwards may win the
    // race and this one is the one that gets refused)
    let (mut req, r) = open_peer(w, reg_req(NS, &tname(t)), false).await.map_err(Outcome::Inconclusive)?;
    if !matches!(r, FirstReply::Frame(Frame::Ok)) {
        return Err(Outcome::fail("helper-requestor-refused", format!("{r:?}")));
    }
    if !reqrep_probe(&mut req, &format!("bind-{}", fresh_id()), W).await {
        return Err(Outcome::fail("helper-replier-not-served", format!("a well-behaved replier on {} was answered Ok but a requestor gets no reply through it", tname(t))));
    }
    Ok(())
}

async fn pubsub_health(w: &mut World, t: u8, what: &str) -> Result<(), Outcome> {
    let (mut sub, r1) = open_peer(w, reg_sub(NS, &tname(t)), false).await.map_err(Outcome::Inconclusive)?;
    let (publ, r2) = open_peer(w, reg_pub(NS, &tname(t)), false).await.map_err(Outcome::Inconclusive)?;
    if !matches!(r1, FirstReply::Frame(Frame::Ok)) || !matches!(r2, FirstReply::Frame(Frame::Ok)) {
        return Err(Outcome::fail("topic-unusable", format!("{what}: a fresh publisher/subscriber on {} was answered {r2:?} / {r1:?}", tname(t))));
    }
    let tag = format!("health-{}", fresh_id());
    if !pubsub_probe(&publ, &mut sub, &tag, W).await {
        return Err(Outcome::fail("topic-unusable", format!("{what}: a fresh publisher/subscriber pair on {} cannot exchange a message any more", tname(t))));
    }
    Ok(())
}

async fn reqrep_health(w: &mut World, t: u8, what: &str) -> Result<(), Outcome> {
    ensure_replier(w, t).await?;
    let (mut req, r) = open_peer(w, reg_req(NS, &tname(t)), false).await.map_err(Outcome::Inconclusive)?;
    if !matches!(r, FirstReply::Frame(Frame::Ok)) {
        return Err(Outcome::fail("topic-unusable", format!("{what}: a fresh requestor on {} was answered {r:?}", tname(t))));
    }
    let tag = format!("health-{}", fresh_id());
    if !reqrep_probe(&mut req, &tag, W).await {
        return Err(Outcome::fail("topic-unusable", format!("{what}: a fresh requestor on {} gets no reply from the bound replier any more", tname(t))));
    }
    Ok(())
}

pub async fn run_case(certs: &Certs, c: &Case) -> Outcome {
    match tokio::time::timeout(Duration::from_secs(120), run_inner(certs, c)).await {
        Ok(Ok(o)) | Ok(Err(o)) => o,
        Err(_) => Outcome::Inconclusive("case exceeded 120 s".into()),
    }
}

async fn run_inner(certs: &Certs, c: &Case) -> Result<Outcome, Outcome> {
    let server = TestServer::start(certs).map_err(|e| Outcome::Inconclusive(format!("server: {e}")))?;
    let id = RawIdentity::from_certs(certs).map_err(|e| Outcome::Inconclusive(format!("certs: {e}")))?;
    let conn = raw_connect(server.addr, &id).await.map_err(Outcome::Inconclusive)?;
    let panics_before = panics::global_len();
    let mut w = World { conn, kind: HashMap::new(), replier: HashMap::new(), keep: vec![], partial: vec![] };
    let mut labels: Vec<&'static str> = vec![];

    for (t, rr) in c.pre.iter().take(3) {
        let t = t % 3;
        if w.kind.contains_key(&t) {
            continue;
        }
        if *rr {
            ensure_replier(&mut w, t).await?;
        } else {
            let (p, r) = open_peer(&w, reg_pub(NS, &tname(t)), false).await.map_err(Outcome::Inconclusive)?;
            if !matches!(r, FirstReply::Frame(Frame::Ok)) {
                return Err(Outcome::fail("helper-publisher-refused", format!("{r:?}")));
            }
            w.keep.push(p);
            w.kind.insert(t, Pattern::PubSub);
        }
    }

    for (si, sc) in c.streams.iter().enumerate() {
        let t = sc.topic % 3;
        let what = format!("stream {si} ({:?} on {})", sc.first, tname(t));
        if let First::Partial { cut } = sc.first {
            use tokio_util::codec::Encoder;
            let mut buf = bytes::BytesMut::new();
            selium_protocol::MessageCodec.encode(reg_sub(NS, &tname(t)), &mut buf).map_err(|e| Outcome::Inconclusive(format!("encode: {e}")))?;
            let k = 1 + cut as usize % (buf.len() - 1);
            let (mut send, recv) = tokio::time::timeout(W, w.conn.open_bi()).await.map_err(|_| Outcome::Inconclusive("open_bi timed out".into()))?.map_err(|e| Outcome::Inconclusive(e.to_string()))?;
            send.write_all(&buf[..k]).await.map_err(|e| Outcome::Inconclusive(format!("partial write: {e}")))?;
            w.partial.push((send, recv, buf[k..].to_vec(), what));
            labels.push("partial-first-frame");
            continue;
        }
        let (role_pattern, first_frame): (Option<Pattern>, Frame) = match sc.first {
            First::RegPub => (Some(Pattern::PubSub), reg_pub(NS, &tname(t))),
            First::RegSub => (Some(Pattern::PubSub), reg_sub(NS, &tname(t))),
            First::RegRep => (Some(Pattern::ReqRep), reg_rep(NS, &tname(t))),
            First::RegReq => (Some(Pattern::ReqRep), reg_req(NS, &tname(t))),
            First::BadName { role, how } => (None, bad_name(role, how)),
            First::Message => (None, small_frame(4, t)),
            First::Batch => (None, small_frame(5, t)),
            First::Error => (None, small_frame(6, t)),
            First::Ok => (None, Frame::Ok),
            First::Partial { .. } => unreachable!(),
        };
        let is_replier = matches!(sc.first, First::RegRep);
        let second_replier = is_replier && w.replier.contains_key(&t);
        let (mut peer, reply) = open_peer(&w, first_frame, is_replier && !second_replier).await.map_err(Outcome::Inconclusive)?;
        match (sc.first, role_pattern) {
            (First::BadName { .. }, _) => {
                labels.push("invalid-name-registration");
                match &reply {
                    FirstReply::Frame(Frame::Error(e)) if e.code == INVALID_TOPIC_NAME => {}
                    other => return Err(Outcome::fail("invalid-name-not-refused", format!("{what}: expected Error(INVALID_TOPIC_NAME), got {other:?}"))),
                }
                // explicitly refused means refused: nothing more may arrive on that stream
                if peer.wait_for(Duration::from_millis(300), |f| !matches!(f, Frame::Error(_))).await {
                    return Err(Outcome::fail("refused-then-served", format!("{what}: refused with INVALID_TOPIC_NAME and then sent {:?}", peer.received)));
                }
                continue;
            }
            (_, None) => {
                labels.push("non-registration-first-frame");
                match &reply {
                    FirstReply::Frame(Frame::Ok) => return Err(Outcome::fail("non-registration-answered-ok", format!("{what}: answered Ok"))),
                    FirstReply::Silent => return Err(Outcome::fail("stream-left-hanging", format!("{what}: neither refused nor ended within {W:?}"))),
                    FirstReply::Frame(Frame::Error(_)) | FirstReply::Ended(_) => {}
                    FirstReply::Frame(other) => return Err(Outcome::fail("unexpected-first-reply", format!("{what}: {other:?}"))),
                }
                continue;
            }
            (_, Some(pat)) => {
                let existing = w.kind.get(&t).copied();
                if existing.is_some() && existing != Some(pat) {
                    labels.push("cross-pattern-registration");
                    match &reply {
                        FirstReply::Frame(Frame::Error(_)) => {
                            // the client library must report the same situation as an error
                            let cl = client(server.addr, certs).await.map_err(Outcome::Inconclusive)?;
                            let topic = format!("/{NS}/{}", tname(t));
                            let r: Result<(), String> = match sc.first {
                                First::RegPub => tokio::time::timeout(W, cl.publisher(&topic).with_encoder(StringCodec).open()).await.map(|r| r.map(|_| ()).map_err(|e| e.to_string())).unwrap_or(Ok(())),
                                First::RegSub => tokio::time::timeout(W, cl.subscriber(&topic).with_decoder(StringCodec).open()).await.map(|r| r.map(|_| ()).map_err(|e| e.to_string())).unwrap_or(Ok(())),
                                First::RegReq => tokio::time::timeout(W, cl.requestor(&topic).with_request_encoder(StringCodec).with_reply_decoder(StringCodec).open()).await.map(|r| r.map(|_| ()).map_err(|e| e.to_string())).unwrap_or(Ok(())),
                                _ => tokio::time::timeout(W, cl.replier(&topic).with_request_decoder(StringCodec).with_reply_encoder(StringCodec).with_handler(|s: String| async move { Ok::<_, String>(s) }).open()).await.map(|r| r.map(|_| ()).map_err(|e| e.to_string())).unwrap_or(Ok(())),
                            };
                            if r.is_ok() {
                                return Err(Outcome::fail("client-open-ok-on-refused-role", format!("{what}: the wire says Error but the client library's open() returned Ok (or hung)")));
                            }
                        }
                        FirstReply::Frame(Frame::Ok) => {
                            // accepted: then it must really be served in that role - it cannot be,
                            // the topic runs the other pattern
                            let ended = peer.wait_end(Duration::from_millis(500)).await;
                            return Err(Outcome::fail(
                                "ok-then-abandoned",
                                format!("{what}: the topic already runs the other messaging pattern, yet the registration was answered Ok (stream afterwards: ended={ended}, frames={:?}) - accepted and silently abandoned", peer.received),
                            ));
                        }
                        other => return Err(Outcome::fail("unexpected-first-reply", format!("{what}: {other:?}"))),
                    }
                    continue;
                }
                // matching or fresh topic: must be accepted and served
                if !matches!(reply, FirstReply::Frame(Frame::Ok)) {
                    return Err(Outcome::fail("valid-registration-refused", format!("{what}: expected Ok, got {reply:?}")));
                }
                w.kind.insert(t, pat);
            }
        }
        // ---- served in the role it asked for ----
        match sc.first {
            First::RegPub => {
                let (mut sub, r) = open_peer(&w, reg_sub(NS, &tname(t)), false).await.map_err(Outcome::Inconclusive)?;
                if !matches!(r, FirstReply::Frame(Frame::Ok)) {
                    return Err(Outcome::fail("helper-subscriber-refused", format!("{r:?}")));
                }
                if !pubsub_probe(&peer, &mut sub, &format!("served-{si}"), W).await {
                    return Err(Outcome::fail("ok-then-not-served", format!("{what}: answered Ok but messages sent through it never reach a subscriber")));
                }
            }
            First::RegSub => {
                let (publ, r) = open_peer(&w, reg_pub(NS, &tname(t)), false).await.map_err(Outcome::Inconclusive)?;
                if !matches!(r, FirstReply::Frame(Frame::Ok)) {
                    return Err(Outcome::fail("helper-publisher-refused", format!("{r:?}")));
                }
                if !pubsub_probe(&publ, &mut peer, &format!("served-{si}"), W).await {
                    return Err(Outcome::fail("ok-then-not-served", format!("{what}: answered Ok but never receives what a publisher sends")));
                }
                w.keep.push(publ);
            }
            First::RegReq => {
                ensure_replier(&mut w, t).await?;
                if !reqrep_probe(&mut peer, &format!("served-{si}"), W).await {
                    return Err(Outcome::fail("ok-then-not-served", format!("{what}: answered Ok but its requests get no reply from the bound replier")));
                }
            }
            First::RegRep => {
                if second_replier {
                    labels.push("second-replier");
                    if std::env::var("VERIF_DEBUG").is_ok() { eprintln!("second replier on {t}: reply={reply:?} panics={:?}", panics::global_since(panics_before)); }
                    let got = peer.wait_for(W, |f| matches!(f, Frame::Error(e) if e.code == REPLIER_ALREADY_BOUND)).await;
                    if !got {
                        return Err(Outcome::fail("second-replier-not-told", format!("{what}: a replier is already bound; expected Error(REPLIER_ALREADY_BOUND) after the Ok, got {:?} ended={:?}", peer.received, peer.ended)));
                    }
                } else {
                    // this stream is now the bound echo replier
                    let (mut req, r) = open_peer(&w, reg_req(NS, &tname(t)), false).await.map_err(Outcome::Inconclusive)?;
                    if !matches!(r, FirstReply::Frame(Frame::Ok)) {
                        return Err(Outcome::fail("helper-requestor-refused", format!("{r:?}")));
                    }
                    if !reqrep_probe(&mut req, &format!("served-{si}"), W).await {
                        return Err(Outcome::fail("ok-then-not-served", format!("{what}: answered Ok but never receives requests / its replies are not routed")));
                    }
                    // follow-ups are sent through this very stream, then it stays bound
                    for f in &sc.follow {
                        peer.send(follow_frame(f, t, &mut labels, true));
                    }
                    w.replier.insert(t, peer);
                    continue;
                }
            }
            _ => {}
        }
        // ---- unexpected frames mid-stream ----
        for f in &sc.follow {
            peer.send(follow_frame(f, t, &mut labels, false));
        }
        w.keep.push(peer);
    }

    // the streams whose first frame was left unfinished are completed now: each must then be
    // answered (Ok, or the pattern-mismatch error if the topic runs request/reply)
    for (mut send, recv, rest, what) in std::mem::take(&mut w.partial) {
        send.write_all(&rest).await.map_err(|e| Outcome::Inconclusive(format!("completing a partial frame: {e}")))?;
        let mut s = BiStream::from((send, recv));
        match tokio::time::timeout(W, s.next()).await {
            Ok(Some(Ok(Frame::Ok))) | Ok(Some(Ok(Frame::Error(_)))) => {}
            other => return Err(Outcome::fail("stream-left-hanging", format!("{what}: completed after the rest of the script, then neither accepted nor refused: {:?}", other.map(|o| o.map(|r| r.map_err(|e| e.to_string())))))),
        }
        drop(s);
    }
    // let the server digest everything
    tokio::time::sleep(Duration::from_millis(60)).await;
    // ---- every touched topic must still serve well-behaved peers ----
    let touched: Vec<(u8, Pattern)> = w.kind.iter().map(|(k, v)| (*k, *v)).collect();
    for (t, pat) in touched {
        match pat {
            Pattern::PubSub => pubsub_health(&mut w, t, "after the script").await?,
            Pattern::ReqRep => reqrep_health(&mut w, t, "after the script").await?,
        }
    }
    let new_panics = panics::global_since(panics_before);
    if let Some(p) = new_panics.iter().find(|p| !p.contains("/verif/harness/")) {
        return Err(Outcome::fail(format!("server-panic:{}", panics::normalise(p)), format!("a server task panicked during the case: {p}")));
    }
    let nontrivial = labels.iter().any(|l| matches!(*l, "partial-first-frame" | "frame-kind-the-role-never-sends" | "cross-pattern-registration" | "request-near-limit" | "non-registration-first-frame" | "second-replier"));
    labels.sort();
    labels.dedup();
    Ok(Outcome::pass(labels, nontrivial))
}

fn follow_frame(f: &Follow, t: u8, labels: &mut Vec<&'static str>, is_replier: bool) -> Frame {
    match f {
        Follow::Kind(k) => {
            if k % 8 != 4 {
                labels.push("frame-kind-the-role-never-sends");
            }
            small_frame(*k, t)
        }
        Follow::NearLimit { slack } => {
            labels.push("request-near-limit");
            near_limit(*slack)
        }
        Follow::BadTag(v) => {
            if is_replier {
                labels.push("reply-with-bad-tag");
            }
            let mut h = HashMap::new();
            match v % 4 {
                0 => {}
                1 => {
                    h.insert("cid".to_string(), "not-a-number".to_string());
                }
                2 => {
                    h.insert("cid".to_string(), "4000000".to_string());
                }
                _ => {
                    h.insert("cid".to_string(), "".to_string());
                }
            }
            Frame::Message(MessagePayload { headers: if v % 5 == 4 { None } else { Some(h) }, message: "bad-tag-reply".into() })
        }
    }
}

pub fn strategy() -> BoxedStrategy<Case> {
    let first = prop_oneof![
        3 => Just(First::RegPub),
        3 => Just(First::RegSub),
        4 => Just(First::RegRep),
        4 => Just(First::RegReq),
        2 => (0u8..4, 0u8..8).prop_map(|(role, how)| First::BadName { role, how }),
        1 => Just(First::Message),
        1 => Just(First::Batch),
        1 => Just(First::Error),
        1 => Just(First::Ok),
        2 => any::<u8>().prop_map(|cut| First::Partial { cut }),
    ];
    let follow = prop_oneof![
        6 => (0u8..8).prop_map(Follow::Kind),
        2 => (0u8..64).prop_map(|slack| Follow::NearLimit { slack }),
        2 => (0u8..20).prop_map(Follow::BadTag),
    ];
    let stream = (0u8..3, first, proptest::collection::vec(follow, 0..6)).prop_map(|(topic, first, follow)| StreamScript { topic, first, follow });
    (proptest::collection::vec((0u8..3, any::<bool>()), 0..3), proptest::collection::vec(stream, 1..5)).prop_map(|(pre, streams)| Case { pre, streams }).boxed()
}

pub fn run_net(ctx: &mut Ctx) {
    let env = match Env::new() {
        Ok(e) => e,
        Err(e) => return ctx.inconclusive(format!("environment: {e}")),
    };
    let certs = env.certs.clone();
    let handle = env.rt.handle().clone();
    ctx.shrink_iters = 30;
    ctx.workers = ctx.workers.min(8);
    ctx.search("stream-scripts", strategy, ctx.tier.pick(150, 3_000), false, move |c: &Case| {
        crate::core::watchdog::tick();
        match crate::core::catch(|| handle.block_on(run_case(&certs, c))) {
            Ok(o) => o,
            Err(p) => Outcome::fail(format!("panic:{}", panics::normalise(&p)), format!("harness/client panicked: {p}")),
        }
    });
}

pub fn replay(id: &str, case: &serde_json::Value) -> i32 {
    let env = match Env::new() {
        Ok(e) => e,
        Err(e) => {
            eprintln!("environment: {e}");
            return 2;
        }
    };
    crate::core::replay_case::<Case>(id, case, 3, |c| match crate::core::catch(|| env.rt.block_on(run_case(&env.certs, c))) { Ok(o) => o, Err(p) => Outcome::fail(format!("panic:{}", crate::core::panics::normalise(&p)), format!("panicked: {p}")) })
}
