//! C04 — end-to-end request/reply: each call gets its own reply, or a timely error.
//! Real server, real `Requestor`s (streams x clones x concurrent calls) and a scripted
//! raw replier that answers out of order, late, twice or never.
use super::c03::{KBincode, KBytes, KString, Kind};
use super::*;
use crate::core::{Ctx, Outcome};
use crate::pure::c14::{self, Algo, CompBox, DecompBox};
use bytes::{Bytes, BytesMut};
use proptest::prelude::*;
use selium::prelude::*;
use selium_protocol::MessagePayload;
use selium_std::traits::codec::{MessageDecoder, MessageEncoder};
use serde::{Deserialize, Serialize};
use std::time::Instant;
use tokio::sync::{mpsc, Barrier};

pub const SHORT_MS: u64 = 400;
pub const LONG_MS: u64 = 8_000;
pub const CHURN_CALLS: usize = 6;

#[derive(Debug, Clone, Copy, Serialize, Deserialize, Hash, PartialEq, Eq)]
pub enum Plan {
    Prompt,
    Never,
    Late,
    Dup,
}

#[derive(Debug, Clone, Serialize, Deserialize, Hash, PartialEq, Eq)]
pub struct Case {
    pub codec: u8,
    pub req_comp: Option<Algo>,
    pub rep_comp: Option<Algo>,
    pub nstreams: u8,
    pub nclones: u8,
    pub ncalls: u8,
    /// plan per call index (cycled)
    pub plans: Vec<Plan>,
    pub perm_seed: u16,
    /// how eagerly the replier releases held requests (0 = only after a quiet period)
    pub flush_bias: u8,
    pub payload: u8,
    /// final phase A: this many clones of a fresh short-timeout stream each issue one
    /// never-answered request at the same moment (0 = skip)
    #[serde(default)]
    pub storm: u8,
    /// final phase B: all requestor streams are dropped, the replier then answers every
    /// request it never answered, while a fresh stream has calls in flight
    #[serde(default)]
    pub churn: bool,
    /// a raw requestor on the same topic keeps sending requests that carry a forged `cid`
    /// header (the ids of the client's streams) and the request ids the client has in flight
    #[serde(default)]
    pub intruder: bool,
}

fn f(req: &[u8]) -> Vec<u8> {
    let mut v = b"reply<".to_vec();
    v.extend(req.iter().rev());
    v.push(b'>');
    v
}

fn lcg(x: &mut u64) -> u64 {
    *x = x.wrapping_mul(6364136223846793005).wrapping_add(1442695040888963407);
    *x >> 33
}

struct CallResult {
    idx: usize,
    body: Vec<u8>,
    res: Result<Vec<u8>, String>,
    elapsed: Duration,
    short: bool,
    /// after a late reply to this (timed-out) call: did a further call on the same requestor succeed?
    follow: Option<Result<(), String>>,
}

async fn run_typed<K: Kind>(addr: SocketAddr, certs: &Certs, c: &Case) -> Outcome {
    let topic_t = format!("case-{}", fresh_id());
    let topic = format!("/c04ns/{topic_t}");
    let (nstreams, nclones, ncalls) = (1 + (c.nstreams % 3) as usize, 1 + (c.nclones % 4) as usize, 1 + (c.ncalls % 8) as usize);
    // bound the total so a case stays short
    let ncalls = ncalls.min(24 / (nstreams * nclones)).max(1);
    let total = nstreams * nclones * ncalls;
    let mut plans: Vec<Plan> = (0..total).map(|i| c.plans.get(i % c.plans.len().max(1)).copied().unwrap_or(Plan::Prompt)).collect();
    // at most one never- and one late-answered request per case
    let (mut seen_never, mut seen_late) = (false, false);
    for p in plans.iter_mut() {
        match p {
            Plan::Never if seen_never => *p = Plan::Prompt,
            Plan::Never => seen_never = true,
            Plan::Late if seen_late => *p = Plan::Prompt,
            Plan::Late => seen_late = true,
            _ => {}
        }
    }
    // scripted raw replier
    let id = match RawIdentity::from_certs(certs) {
        Ok(i) => i,
        Err(e) => return Outcome::Inconclusive(format!("certs: {e}")),
    };
    let rconn = match raw_connect(addr, &id).await {
        Ok(c) => c,
        Err(e) => return Outcome::Inconclusive(format!("raw connect: {e}")),
    };
    let (mut rs, first) = match raw_open(&rconn, reg_rep("c04ns", &topic_t), Duration::from_secs(10)).await {
        Ok(x) => x,
        Err(e) => return Outcome::Inconclusive(format!("raw replier open: {e}")),
    };
    if !matches!(first, FirstReply::Frame(Frame::Ok)) {
        return Outcome::fail("replier-registration-not-ok", format!("{first:?}"));
    }
    let (late_tx, mut late_rx) = mpsc::unbounded_channel::<Vec<u8>>();
    let plans2 = plans.clone();
    let (req_comp, rep_comp) = (c.req_comp, c.rep_comp);
    let (perm_seed, flush_bias) = (c.perm_seed, c.flush_bias);
    let replier = tokio::spawn(async move {
        let dec = K::dec();
        let enc = K::enc();
        let mut pr = perm_seed as u64 | 1 << 32;
        let mut held: Vec<(MessagePayload, Vec<u8>, usize)> = vec![];
        let mut late: Vec<(Vec<u8>, MessagePayload)> = vec![];
        let mut never: Vec<(Vec<u8>, MessagePayload)> = vec![];
        let mut churn_held: Vec<(MessagePayload, Vec<u8>)> = vec![];
        let mut bad: Vec<String> = vec![];
        let mut intruder_reply: Option<Bytes> = None;
        let make_reply = |body: &[u8]| -> Bytes {
            let mut b = enc.encode(K::item(f(body))).unwrap();
            if let Some(a) = rep_comp {
                b = c14::make(a).0.compress(b).unwrap();
            }
            b
        };
        let mut quiet_at = tokio::time::Instant::now() + Duration::from_millis(40);
        loop {
            // (the quiet period is counted from the last request of the client under test:
            // warm-up and intruder traffic does not postpone the release of held requests)
            let quiet = tokio::time::sleep_until(quiet_at);
            tokio::select! {
                fr = rs.next() => {
                    let Some(Ok(Frame::Message(m))) = fr else { break };
                    let mut bytes = m.message.clone();
                    if let Some(a) = req_comp {
                        bytes = match c14::make(a).1.decompress(bytes) { Ok(b) => b, Err(e) => { bad.push(format!("request does not decompress: {e}")); continue } };
                    }
                    let item = match dec.decode(&mut BytesMut::from(&bytes[..])) { Ok(i) => i, Err(e) => { bad.push(format!("request does not decode: {e}")); continue } };
                    let body = K::body(&item);
                    if body.starts_with(b"intruder") {
                        // one pre-built reply: answering the intruder must cost the replier nothing
                        let r = intruder_reply.get_or_insert_with(|| make_reply(b"intruder")).clone();
                        let _ = rs.send(Frame::Message(MessagePayload { headers: m.headers, message: r })).await;
                        continue;
                    }
                    if body.starts_with(b"warmup") || body.starts_with(b"follow") {
                        let _ = rs.send(Frame::Message(MessagePayload { headers: m.headers, message: make_reply(&body) })).await;
                        continue;
                    }
                    if body.starts_with(b"storm") {
                        continue; // never answered
                    }
                    if body.starts_with(b"churn") {
                        churn_held.push((m, body));
                        if churn_held.len() >= CHURN_CALLS {
                            // first every reply that is still owed to the streams that are gone ...
                            for (b, m) in late.drain(..).chain(never.drain(..)) {
                                let _ = rs.send(Frame::Message(MessagePayload { headers: m.headers, message: make_reply(&b) })).await;
                            }
                            // ... then the replies to the calls that are in flight now
                            for (m, b) in churn_held.drain(..) {
                                let _ = rs.send(Frame::Message(MessagePayload { headers: m.headers, message: make_reply(&b) })).await;
                            }
                        }
                        continue;
                    }
                    let idx: usize = String::from_utf8_lossy(&body).split('#').nth(1).and_then(|s| s.parse().ok()).unwrap_or(usize::MAX);
                    if idx >= plans2.len() { bad.push(format!("unparseable request body {:?}", String::from_utf8_lossy(&body[..body.len().min(40)]))); continue }
                    if std::env::var_os("VERIF_DEBUG").is_some() { eprintln!("replier: got #{idx} headers={:?}", m.headers); }
                    held.push((m, body, idx));
                    quiet_at = tokio::time::Instant::now() + Duration::from_millis(40);
                    if (lcg(&mut pr) % 4) as u8 >= flush_bias % 4 { continue }
                }
                Some(name) = late_rx.recv() => {
                    if let Some(i) = late.iter().position(|(b, _)| *b == name) {
                        let (b, m) = late.swap_remove(i);
                        let _ = rs.send(Frame::Message(MessagePayload { headers: m.headers, message: make_reply(&b) })).await;
                    }
                    continue;
                }
                _ = quiet => { quiet_at = tokio::time::Instant::now() + Duration::from_millis(40); }
            }
            // release everything held, in a permuted order
            while !held.is_empty() {
                let i = (lcg(&mut pr) as usize) % held.len();
                let (m, body, idx) = held.swap_remove(i);
                if std::env::var_os("VERIF_DEBUG").is_some() { eprintln!("replier: release #{idx} as {:?}", plans2[idx]); }
                match plans2[idx] {
                    Plan::Never => never.push((body, m)),
                    Plan::Late => late.push((body, m)),
                    Plan::Prompt => {
                        let _ = rs.send(Frame::Message(MessagePayload { headers: m.headers, message: make_reply(&body) })).await;
                    }
                    Plan::Dup => {
                        for _ in 0..2 {
                            let _ = rs.send(Frame::Message(MessagePayload { headers: m.headers.clone(), message: make_reply(&body) })).await;
                        }
                    }
                }
            }
        }
        bad
    });

    // `Ok` does not yet mean the replier is bound (the socket reaches the router later):
    // a raw requestor repeats a warm-up request until the scripted replier's answer arrives
    let mut wp = {
        let (ws, wr) = match raw_open(&rconn, reg_req("c04ns", &topic_t), Duration::from_secs(10)).await {
            Ok(x) => x,
            Err(e) => return Outcome::Inconclusive(format!("warm-up requestor: {e}")),
        };
        if !matches!(wr, FirstReply::Frame(Frame::Ok)) {
            return Outcome::fail("requestor-registration-not-ok", format!("{wr:?}"));
        }
        let mut wp = Peer::spawn(ws, false);
        let enc = K::enc();
        let t = Instant::now();
        let mut bound = false;
        let mut k = 0;
        while t.elapsed() < Duration::from_secs(10) && !bound {
            k += 1;
            let mut b = enc.encode(K::item(format!("warmup{k}").into_bytes())).unwrap();
            if let Some(a) = c.req_comp {
                b = c14::make(a).0.compress(b).unwrap();
            }
            let mut h = std::collections::HashMap::new();
            h.insert("req_id".to_string(), format!("{k}"));
            wp.send(Frame::Message(MessagePayload { headers: Some(h), message: b }));
            bound = wp.wait_for(Duration::from_millis(if k < 20 { 60 } else { 300 }), |f| matches!(f, Frame::Message(_))).await;
        }
        if !bound {
            return Outcome::Inconclusive("warm-up: the scripted replier never answered within 10 s".into());
        }
        wp
    };
    // without an intruder the warm-up requestor leaves before the client's streams register
    // (so the topic is, for a moment, without any requestor stream)
    let mut wp = if c.intruder { Some(wp) } else { drop(wp); None };
    let client = match client(addr, certs).await {
        Ok(c) => c,
        Err(e) => return Outcome::Inconclusive(format!("client connect: {e}")),
    };
    // a barrier, not Notify::notify_waiters: a task that has not reached its wait point yet
    // when the start signal is given must not miss it
    let go = Arc::new(Barrier::new(nstreams * nclones + 1));
    let mut tasks = vec![];
    let mut idx = 0usize;
    let mut out_of_order_possible = false;
    for s in 0..nstreams {
        // a stream that contains a never/late answered call gets the short timeout
        let my_range = idx..idx + nclones * ncalls;
        let short = plans[my_range.clone()].iter().any(|p| matches!(p, Plan::Never | Plan::Late));
        let timeout = Duration::from_millis(if short { SHORT_MS } else { LONG_MS });
        let mut b0 = client.requestor(&topic).with_request_encoder(K::enc());
        if let Some(a) = c.req_comp {
            b0 = b0.with_request_compression(CompBox(c14::make(a).0));
        }
        let mut b = b0.with_reply_decoder(K::dec());
        if let Some(a) = c.rep_comp {
            b = b.with_reply_decompression(DecompBox(c14::make(a).1));
        }
        let base = match b.with_request_timeout(timeout) {
            Ok(b) => match b.open().await {
                Ok(r) => r,
                Err(e) => return Outcome::fail("requestor-open-failed", format!("{e}")),
            },
            Err(e) => return Outcome::Inconclusive(format!("timeout config: {e}")),
        };
        if nclones * ncalls > 1 {
            out_of_order_possible = true;
        }
        for cl in 0..nclones {
            let mut rq = base.clone();
            let my: Vec<usize> = (0..ncalls).map(|_| { idx += 1; idx - 1 }).collect();
            let plans = plans.clone();
            let late_tx = late_tx.clone();
            let go = go.clone();
            let payload = c.payload;
            tasks.push(tokio::spawn(async move {
                go.wait().await;
                let mut out = vec![];
                for (k, i) in my.into_iter().enumerate() {
                    let mut body = format!("s{s}c{cl}k{k}#{i}#").into_bytes();
                    body.extend(std::iter::repeat(b'a' + (i % 26) as u8).take([0usize, 3, 40, 900, 20_000][(payload as usize + i) % 5]));
                    let t = Instant::now();
                    let res = rq.request(K::item(body.clone())).await;
                    let el = t.elapsed();
                    let mut follow = None;
                    if plans[i] == Plan::Late && res.is_err() {
                        // only now may the replier answer: event-driven lateness
                        let _ = late_tx.send(body.clone());
                        tokio::time::sleep(Duration::from_millis(40)).await;
                        // the late reply is on its way to this requestor (nobody waits for it
                        // any more): the requestor must go on working. Promptly answered calls;
                        // several attempts, so that a loaded machine cannot fail this
                        let mut r: Result<(), String> = Err("not tried".into());
                        for a in 0..6 {
                            let fb = format!("follow-{i}-{a}").into_bytes();
                            match rq.request(K::item(fb.clone())).await {
                                Ok(v) if K::body(&v) == f(&fb) => { r = Ok(()); break; }
                                Ok(v) => { r = Err(format!("WRONG reply {:?}", String::from_utf8_lossy(&K::body(&v)[..K::body(&v).len().min(60)]))); break; }
                                Err(e) => r = Err(e.to_string()),
                            }
                        }
                        follow = Some(r);
                    }
                    out.push(CallResult { idx: i, body, res: res.map(|v| K::body(&v)).map_err(|e| e.to_string()), elapsed: el, short, follow });
                }
                out
            }));
        }
    }
    // the intruder: the warm-up requestor (router id 0 on this topic; the client's streams are
    // 1..=nstreams) claims to be each of the client's streams, for every request id they use
    let stop = Arc::new(std::sync::atomic::AtomicBool::new(false));
    struct StopOnDrop(Arc<std::sync::atomic::AtomicBool>);
    impl Drop for StopOnDrop {
        fn drop(&mut self) {
            self.0.store(true, std::sync::atomic::Ordering::Relaxed);
        }
    }
    let _stop_guard = StopOnDrop(stop.clone());
    let intruder = if let Some(mut wp) = wp.take() {
        let stop = stop.clone();
        let req_comp = c.req_comp;
        let per_stream = nclones * ncalls + 2;
        Some(tokio::spawn(async move {
            let enc = K::enc();
            let (mut round, mut sent, mut got) = (0usize, 0usize, 0usize);
            while !stop.load(std::sync::atomic::Ordering::Relaxed) && round < 4_000 {
                round += 1;
                for cid in 1..=nstreams {
                    for rid in 0..per_stream {
                        let mut b = enc.encode(K::item(b"intruder".to_vec())).unwrap();
                        if let Some(a) = req_comp {
                            b = c14::make(a).0.compress(b).unwrap();
                        }
                        let mut h = std::collections::HashMap::new();
                        h.insert("req_id".to_string(), format!("{rid}"));
                        h.insert("cid".to_string(), format!("{cid}"));
                        wp.send(Frame::Message(MessagePayload { headers: Some(h), message: b }));
                    }
                }
                // closed loop: the next round starts when the replies are back (they come back
                // to the intruder on a correct server) or after 30 ms; when more than two rounds
                // are outstanding the intruder backs off, so that the scripted replier is never
                // given a backlog that would delay the client's own requests
                sent += nstreams * per_stream;
                let dl = tokio::time::Instant::now() + Duration::from_millis(30);
                while got < sent {
                    match tokio::time::timeout_at(dl, wp.inc.recv()).await {
                        Ok(Some(PeerEv::Frame(_))) => got += 1,
                        _ => break,
                    }
                }
                if sent - got > 2 * nstreams * per_stream {
                    let dl = tokio::time::Instant::now() + Duration::from_secs(1);
                    while sent - got > nstreams * per_stream {
                        match tokio::time::timeout_at(dl, wp.inc.recv()).await {
                            Ok(Some(PeerEv::Frame(_))) => got += 1,
                            _ => break,
                        }
                    }
                }
                if std::env::var_os("VERIF_DEBUG").is_some() { eprintln!("intruder round {round}: {got} of {sent} replies back"); }
                tokio::time::sleep(Duration::from_millis(3)).await;
            }
            drop(wp);
        }))
    } else {
        None
    };
    go.wait().await;
    let mut results = vec![];
    for t in tasks {
        match tokio::time::timeout(Duration::from_secs(60), t).await {
            Ok(Ok(v)) => results.extend(v),
            Ok(Err(e)) => return Outcome::fail("caller-task-panicked", format!("{e}")),
            Err(_) => return Outcome::fail("call-hung", "a request() neither returned a reply nor its timeout error within 60 s (timeouts are 0.4 s / 8 s)"),
        }
    }
    stop.store(true, std::sync::atomic::Ordering::Relaxed);
    if let Some(t) = intruder {
        let _ = tokio::time::timeout(Duration::from_secs(5), t).await;
    }
    let mut labels: Vec<&'static str> = vec![];
    if c.intruder { labels.push("forged-origin-intruder"); }
    // ---- phase A: concurrent never-answered requests must each time out at the timeout ----
    let storm = match c.storm % 5 { 3 => 3usize, 4 => 4, _ => 0 };
    if storm > 0 {
        let b = client.requestor(&topic).with_request_encoder(K::enc());
        let b = match c.req_comp { Some(a) => b.with_request_compression(CompBox(c14::make(a).0)), None => b };
        let base = match b.with_reply_decoder(K::dec()).with_request_timeout(Duration::from_millis(SHORT_MS)) {
            Ok(b) => match b.open().await { Ok(r) => r, Err(e) => return Outcome::fail("requestor-open-failed", format!("{e}")) },
            Err(e) => return Outcome::Inconclusive(format!("{e}")),
        };
        let go2 = Arc::new(Barrier::new(storm + 2));
        let mut ts = vec![];
        for i in 0..storm {
            let mut rq = base.clone();
            let go2 = go2.clone();
            ts.push(tokio::spawn(async move {
                go2.wait().await;
                let t = Instant::now();
                let r = rq.request(K::item(format!("storm#{i}").into_bytes())).await;
                (r.map(|_| ()).map_err(|e| e.to_string()), t.elapsed())
            }));
        }
        let go3 = go2.clone();
        let control = tokio::spawn(async move {
            go3.wait().await;
            let t = Instant::now();
            tokio::time::sleep(Duration::from_millis(SHORT_MS)).await;
            t.elapsed()
        });
        go2.wait().await;
        let control_elapsed = control.await.unwrap_or(Duration::from_secs(99));
        let mut worst = Duration::ZERO;
        for t in ts {
            match tokio::time::timeout(Duration::from_secs(30), t).await {
                Ok(Ok((Err(e), el))) if e.contains("timed out") => worst = worst.max(el),
                Ok(Ok((Err(e), _))) => return Outcome::fail("wrong-error-for-timeout", format!("storm call: {e}")),
                Ok(Ok((Ok(()), _))) => return Outcome::fail("reply-out-of-nowhere", "a never-answered storm call returned Ok"),
                Ok(Err(e)) => return Outcome::fail("caller-task-panicked", format!("{e}")),
                Err(_) => return Outcome::fail("call-hung", "a never-answered request did not time out within 30 s (timeout 0.4 s)"),
            }
        }
        // only judged when a plain timer of the same length, started at the same moment on the
        // same runtime, fired on time: then lateness is not the machine's fault
        if control_elapsed < Duration::from_millis(SHORT_MS + 150) && worst > control_elapsed + Duration::from_millis(700) {
            return Outcome::fail(
                "timeout-not-timely",
                format!("{storm} requests issued at the same moment on clones of one requestor (timeout {SHORT_MS} ms), none answered: the slowest failed only after {worst:?} while a plain {SHORT_MS} ms timer started with them fired after {control_elapsed:?}"),
            );
        }
        labels.push("concurrent-timeouts");
    }
    // ---- phase B: streams come and go; replies owed to departed streams must not reach a new one ----
    if c.churn {
        drop(client);
        tokio::time::sleep(Duration::from_millis(60)).await;
        let client2 = match super::client(addr, certs).await {
            Ok(c) => c,
            Err(e) => return Outcome::Inconclusive(format!("client connect: {e}")),
        };
        let b = client2.requestor(&topic).with_request_encoder(K::enc());
        let b = match c.req_comp { Some(a) => b.with_request_compression(CompBox(c14::make(a).0)), None => b };
        let b = b.with_reply_decoder(K::dec());
        let b = match c.rep_comp { Some(a) => b.with_reply_decompression(DecompBox(c14::make(a).1)), None => b };
        let base = match b.with_request_timeout(Duration::from_millis(LONG_MS)) {
            Ok(b) => match b.open().await { Ok(r) => r, Err(e) => return Outcome::fail("requestor-open-failed", format!("{e}")) },
            Err(e) => return Outcome::Inconclusive(format!("{e}")),
        };
        let mut ts = vec![];
        for i in 0..CHURN_CALLS {
            let mut rq = base.clone();
            ts.push(tokio::spawn(async move {
                let body = format!("churn#{i}#").into_bytes();
                let r = rq.request(K::item(body.clone())).await;
                (body, r.map(|v| K::body(&v)).map_err(|e| e.to_string()))
            }));
        }
        for t in ts {
            match tokio::time::timeout(Duration::from_secs(30), t).await {
                Ok(Ok((body, Ok(v)))) => {
                    if v != f(&body) {
                        return Outcome::fail("foreign-reply", format!("after the earlier requestor streams were dropped, a call on a fresh stream ({}) returned a reply owed to a departed stream: {:?}", String::from_utf8_lossy(&body), String::from_utf8_lossy(&v[..v.len().min(60)])));
                    }
                }
                Ok(Ok((body, Err(e)))) => return Outcome::fail("prompt-reply-timed-out", format!("call {} on the fresh stream: {e}", String::from_utf8_lossy(&body))),
                Ok(Err(e)) => return Outcome::fail("caller-task-panicked", format!("{e}")),
                Err(_) => return Outcome::fail("call-hung", "a call on the fresh stream did not return within 30 s"),
            }
        }
        labels.push("stream-churn-with-owed-replies");
    }
    replier.abort();
    let mut lenient_timeouts = 0;
    for r in &results {
        if let Some(Err(e)) = &r.follow {
            let name = String::from_utf8_lossy(&r.body[..r.body.len().min(24)]).into_owned();
            return Outcome::fail(
                if e.starts_with("WRONG") { "foreign-reply" } else { "requestor-dead-after-late-reply" },
                format!("call {name} timed out and its reply arrived late; six further, promptly answered calls on the same requestor then all failed (last: {e})"),
            );
        }
        let want = f(&r.body);
        let name = String::from_utf8_lossy(&r.body[..r.body.len().min(24)]).into_owned();
        match (&r.res, plans[r.idx]) {
            (Ok(v), _) if *v != want => {
                return Outcome::fail("foreign-reply", format!("call {name} returned a reply that is not the reply to its own request: {:?}", String::from_utf8_lossy(&v[..v.len().min(60)])));
            }
            (Ok(_), Plan::Never) | (Ok(_), Plan::Late) => {
                return Outcome::fail("reply-out-of-nowhere", format!("call {name} was never answered in time, yet returned Ok"));
            }
            (Err(e), Plan::Never) | (Err(e), Plan::Late) => {
                if !e.contains("timed out") {
                    return Outcome::fail("wrong-error-for-timeout", format!("call {name}: expected the timeout error, got {e}"));
                }
                if r.elapsed + Duration::from_millis(10) < Duration::from_millis(SHORT_MS) {
                    return Outcome::fail("timeout-too-early", format!("call {name} timed out after {:?} (configured {SHORT_MS} ms)", r.elapsed));
                }
            }
            (Err(e), _) => {
                if e.contains("timed out") && r.short {
                    // a prompt reply on a short-timeout stream may lose the race under load
                    lenient_timeouts += 1;
                } else if e.contains("timed out") {
                    return Outcome::fail("prompt-reply-timed-out", format!("call {name}: the replier answered, the requestor has an {LONG_MS} ms timeout, yet the call timed out"));
                } else {
                    return Outcome::fail("unexpected-error", format!("call {name}: {e}"));
                }
            }
            _ => {}
        }
    }
    let in_flight_concurrently = nstreams * nclones >= 2;
    if in_flight_concurrently { labels.push("concurrent-calls"); }
    if nstreams >= 2 { labels.push("colliding-ids-on-separate-streams"); }
    if nclones >= 2 { labels.push("cloned-requestors"); }
    if seen_never { labels.push("never-answered"); }
    if seen_late { labels.push("late-answered"); }
    if plans.iter().any(|p| *p == Plan::Dup) { labels.push("duplicated-reply"); }
    if c.req_comp.is_some() || c.rep_comp.is_some() { labels.push("compressed"); }
    if lenient_timeouts > 0 { labels.push("accepted-load-timeout"); }
    labels.push(["codec-string", "codec-bytes", "codec-bincode"][(c.codec % 3) as usize]);
    let followed = (seen_never || seen_late) && ncalls >= 2;
    Outcome::pass(labels, in_flight_concurrently && (out_of_order_possible || nstreams >= 2 || followed))
}

pub async fn run_case(addr: SocketAddr, certs: &Certs, c: &Case) -> Outcome {
    let fut = async {
        match c.codec % 3 {
            0 => run_typed::<KString>(addr, certs, c).await,
            1 => run_typed::<KBytes>(addr, certs, c).await,
            _ => run_typed::<KBincode>(addr, certs, c).await,
        }
    };
    match tokio::time::timeout(Duration::from_secs(120), fut).await {
        Ok(o) => o,
        Err(_) => Outcome::Inconclusive("case exceeded 120 s".into()),
    }
}

pub fn strategy() -> BoxedStrategy<Case> {
    let comp = || prop_oneof![3 => Just(None), 2 => c14::algo_strategy().prop_filter("fast levels", |a| !c14::is_slow(*a)).prop_map(Some)];
    let plan = prop_oneof![8 => Just(Plan::Prompt), 1 => Just(Plan::Never), 1 => Just(Plan::Late), 2 => Just(Plan::Dup)];
    (0u8..3, comp(), comp(), 0u8..3, 0u8..4, 0u8..8, proptest::collection::vec(plan, 1..12), any::<u16>(), 0u8..4, 0u8..5, prop_oneof![3 => Just(0u8), 1 => Just(3u8), 1 => Just(4u8)], (prop::bool::weighted(0.35), prop::bool::weighted(0.3)))
        .prop_map(|(codec, req_comp, rep_comp, nstreams, nclones, ncalls, plans, perm_seed, flush_bias, payload, storm, (churn, intruder))| Case { codec, req_comp, rep_comp, nstreams, nclones, ncalls, plans, perm_seed, flush_bias, payload, storm, churn, intruder })
        .boxed()
}

pub fn run(ctx: &mut Ctx) {
    ctx.rule = "1-3 requestor streams x 1-4 clones x 1-8 sequential calls per clone (<= 24 calls), all clones running concurrently against a scripted wire-level replier that holds requests and releases them in a generated permuted order, answers some twice, at most one never and at most one only after the caller has reported its timeout (after which the same requestor must complete a promptly answered call); unique request bodies, reply = f(request); in 30% of the cases a raw requestor on the same topic meanwhile sends requests carrying the client streams' ids as a forged origin header and every request id in use (the replier answers those promptly); codec {String, Bytes, Bincode} and generated request/reply compression; oracle: Ok(v) implies v == f(own request); never/late answered calls fail with the timeout error no earlier than the timeout; answered calls on long-timeout streams return Ok; non-trivial = >=2 calls in flight at once and (several calls per stream so replies can come back out of order, or >=2 streams with colliding ids, or a late/never reply followed by another call)".into();
    ctx.assumptions.push("a promptly answered call on a short-timeout (400 ms) stream may legitimately time out under machine load: both Ok(correct) and the timeout error are accepted there".into());
    ctx.assumptions.push("reply delays are scripted as orderings and event-triggered lateness, not as real-time distributions".into());
    let env = match Env::new() {
        Ok(e) => e,
        Err(e) => return ctx.inconclusive(format!("environment: {e}")),
    };
    let server = match env.rt.block_on(async { TestServer::start(&env.certs) }) {
        Ok(s) => s,
        Err(e) => return ctx.inconclusive(format!("server start: {e}")),
    };
    let addr = server.addr;
    let certs = env.certs.clone();
    let handle = env.rt.handle().clone();
    ctx.shrink_iters = 12;
    ctx.workers = ctx.workers.min(8);
    ctx.search("e2e-reqrep", strategy, ctx.tier.pick(250, 5_000), true, move |c: &Case| {
        crate::core::watchdog::tick();
        match crate::core::catch(|| handle.block_on(run_case(addr, &certs, c))) {
            Ok(o) => o,
            Err(p) => Outcome::fail(format!("panic:{}", crate::core::panics::normalise(&p)), format!("client panicked: {p}")),
        }
    });
    drop(server);
}

pub fn replay(id: &str, case: &serde_json::Value) -> i32 {
    let env = match Env::new() {
        Ok(e) => e,
        Err(e) => {
            eprintln!("environment: {e}");
            return 2;
        }
    };
    let server = env.rt.block_on(async { TestServer::start(&env.certs) }).expect("server");
    let addr = server.addr;
    crate::core::replay_case::<Case>(id, case, 3, |c| match crate::core::catch(|| env.rt.block_on(run_case(addr, &env.certs, c))) { Ok(o) => o, Err(p) => Outcome::fail(format!("panic:{}", crate::core::panics::normalise(&p)), format!("panicked: {p}")) })
}
