//! C03 — end-to-end pub/sub fidelity for every client configuration
//! (real server, real Publisher/Subscriber over loopback QUIC).
use super::*;
use crate::core::{Ctx, Outcome};
use crate::pure::c14::{self, Algo, CompBox, DecompBox, Record};
use proptest::prelude::*;
use selium::batching::BatchConfig;
use selium::prelude::*;
use selium::std::codecs::{BincodeCodec, BytesCodec, StringCodec};
use selium_std::traits::codec::{MessageDecoder, MessageEncoder};
use serde::{Deserialize, Serialize};
use std::fmt::Debug;
use std::time::Instant;

pub const LIMIT: usize = 1024 * 1024;

#[derive(Debug, Clone, Serialize, Deserialize, Hash, PartialEq, Eq)]
pub struct Case {
    /// 0 string, 1 bytes, 2 bincode
    pub codec: u8,
    pub comp: Option<Algo>,
    /// (batch size, interval kind: 0 zero, 1 1ms, 2 1h, 3 Duration::MAX)
    pub batching: Option<(u32, u8)>,
    pub nsubs: u8,
    /// count relative to the batch size: 0 none, 1 one, 2 size-1, 3 size, 4 size+1, 5 k*size+r
    pub count_kind: u8,
    pub count_k: u8,
    pub count_r: u16,
    /// size class per item index (cycled)
    pub sizes: Vec<u8>,
    pub content: u8,
    pub use_feed: bool,
    pub seed: u16,
    /// after this many items (mod count+1) the publisher is duplicated; the copy sends a few
    /// items of its own and finishes while the original carries on
    #[serde(default)]
    pub dup_at: Option<u8>,
    /// (unbatched, uncompressed, string/bytes codec) before this item index an over-limit
    /// item is offered; the publisher must refuse it and carry on unharmed
    #[serde(default)]
    pub oversize_at: Option<u8>,
}

fn interval_of(kind: u8) -> Duration {
    match kind % 4 {
        0 => Duration::ZERO,
        1 => Duration::from_millis(1),
        2 => Duration::from_secs(3600),
        _ => Duration::MAX,
    }
}

impl Case {
    pub fn count(&self) -> usize {
        let bsz = self.batching.map(|b| b.0 as usize).unwrap_or(1).max(1);
        let c = match self.count_kind % 6 {
            0 => 0,
            1 => 1,
            2 => bsz.saturating_sub(1),
            3 => bsz,
            4 => bsz + 1,
            _ => bsz * (1 + self.count_k as usize % 3) + (self.count_r as usize % bsz),
        };
        c.min(700)
    }
    /// byte length budget of one item so that a whole batch stays inside a frame
    fn max_item(&self) -> usize {
        let bsz = self.batching.map(|b| b.0 as usize).unwrap_or(1).max(1);
        // room for compression overhead on incompressible data and the codec framing
        let frame_room = LIMIT - 16 * 1024;
        // a batch is flushed at the poll_ready that finds it at its size, so it never holds
        // more than max(size,1) items (the end marker included)
        let per_batch = match self.batching {
            Some(_) => bsz.min(self.count() + 1),
            None => 1,
        };
        // 8-byte length marker per message plus the codec's own framing (bincode struct)
        (frame_room / per_batch).saturating_sub(320)
    }
    pub fn item_bytes(&self, i: usize) -> Vec<u8> {
        let class = self.sizes.get(i % self.sizes.len().max(1)).copied().unwrap_or(2);
        let want = match class % 8 {
            0 => 0,
            1 => 1,
            2 => 12,
            3 => 200,
            4 => 5_000,
            5 => 60_000,
            6 => 300_000,
            _ => LIMIT, // "up to just under the frame limit": clipped by max_item below
        };
        if class % 16 == 9 && i < 3 && self.batching.is_none() && self.comp.is_none() && self.codec % 3 != 2 {
            // the largest payloads an unbatched, uncompressed publisher accepts: the Message
            // frame's own encoding adds 1 (Option tag) + 8 (length) bytes
            let n = LIMIT - 9 - (i % 9);
            let mut v = format!("item-{i}-").into_bytes();
            v.resize(n, b'L');
            return v;
        }
        // keep the total volume of a case bounded (~3 MiB)
        let fair = (3 * LIMIT) / self.count().max(1);
        let n = want.min(self.max_item()).min(fair.max(16));
        let p = c14::Payload { kind: self.content % 5, size: n as u32, seed: self.seed.wrapping_add(i as u16) };
        if class % 8 == 0 && self.codec % 3 != 2 {
            // a truly empty payload (string "" / empty byte vector): identified by position only
            return vec![];
        }
        let mut v = format!("item-{i}-").into_bytes();
        if self.codec % 3 == 0 {
            // text only for the string codec
            let p = c14::Payload { kind: 4, ..p };
            v.extend(c14::payload_bytes(&p));
            // cut on a char boundary
            let s = String::from_utf8_lossy(&v).into_owned();
            return s.into_bytes();
        }
        v.extend(c14::payload_bytes(&p));
        v
    }
}

pub trait Kind: Send + Sync + 'static {
    type Item: Clone + PartialEq + Debug + Send + Sync + Unpin + 'static;
    type E: MessageEncoder<Self::Item> + Clone + Send + Sync + Unpin + 'static;
    type D: MessageDecoder<Self::Item> + Clone + Send + Sync + Unpin + 'static;
    fn enc() -> Self::E;
    fn dec() -> Self::D;
    fn item(bytes: Vec<u8>) -> Self::Item;
    fn tag(i: &Self::Item) -> Vec<u8>;
    /// the bytes `item` was built from
    fn body(i: &Self::Item) -> Vec<u8>;
}
pub struct KString;
impl Kind for KString {
    type Item = String;
    type E = StringCodec;
    type D = StringCodec;
    fn enc() -> StringCodec { StringCodec }
    fn dec() -> StringCodec { StringCodec }
    fn item(b: Vec<u8>) -> String { String::from_utf8_lossy(&b).into_owned() }
    fn tag(i: &String) -> Vec<u8> { i.as_bytes()[..i.len().min(16)].to_vec() }
    fn body(i: &String) -> Vec<u8> { i.as_bytes().to_vec() }
}
pub struct KBytes;
impl Kind for KBytes {
    type Item = Vec<u8>;
    type E = BytesCodec;
    type D = BytesCodec;
    fn enc() -> BytesCodec { BytesCodec }
    fn dec() -> BytesCodec { BytesCodec }
    fn item(b: Vec<u8>) -> Vec<u8> { b }
    fn tag(i: &Vec<u8>) -> Vec<u8> { i[..i.len().min(16)].to_vec() }
    fn body(i: &Vec<u8>) -> Vec<u8> { i.clone() }
}
pub struct KBincode;
impl Kind for KBincode {
    type Item = Record;
    type E = BincodeCodec<Record>;
    type D = BincodeCodec<Record>;
    fn enc() -> Self::E { BincodeCodec::default() }
    fn dec() -> Self::D { BincodeCodec::default() }
    fn item(b: Vec<u8>) -> Record {
        let name = String::from_utf8_lossy(&b[..b.len().min(16)]).into_owned();
        Record { id: b.len() as u64, name, tags: vec!["t".into(); b.len() % 3], opt: if b.len() % 2 == 0 { Some(b.len() as i32) } else { None }, shape: c14::Shape::Named("n".into(), Some(Box::new(c14::Shape::Circle { r: b.len() as u32 }))), blob: b, nested: vec![vec![1, 2], vec![]], flag: true, ch: 'é' }
    }
    fn tag(i: &Record) -> Vec<u8> { i.name.as_bytes().to_vec() }
    fn body(i: &Record) -> Vec<u8> { i.blob.clone() }
}

#[derive(Default, Debug)]
pub struct Facts {
    pub delivered: usize,
    pub batches_partial: bool,
    pub big_payload: bool,
}

async fn run_typed<K: Kind>(addr: SocketAddr, certs: &Certs, c: &Case) -> Outcome {
    let topic = format!("/c03ns/case-{}", fresh_id());
    let client = match client(addr, certs).await {
        Ok(c) => c,
        Err(e) => return Outcome::Inconclusive(format!("client connect: {e}")),
    };
    let n = c.count();
    let items: Vec<K::Item> = (0..n).map(|i| K::item(c.item_bytes(i))).collect();
    let mut subs = vec![];
    for _ in 0..(1 + c.nsubs % 3) {
        let mut b = client.subscriber(&topic).with_decoder(K::dec());
        if let Some(a) = c.comp {
            b = b.with_decompression(DecompBox(c14::make(a).1));
        }
        match b.open().await {
            Ok(s) => subs.push(s),
            Err(e) => return Outcome::fail("subscriber-open-failed", format!("{e}")),
        }
    }
    // unbatched probe publisher with the same codec/compression
    let mut pb = client.publisher(&topic).with_encoder(K::enc());
    if let Some(a) = c.comp {
        pb = pb.with_compression(CompBox(c14::make(a).0));
    }
    let mut probe = match pb.open().await {
        Ok(p) => p,
        Err(e) => return Outcome::fail("publisher-open-failed", format!("{e}")),
    };
    // warm-up: registration "took effect" once every subscriber has seen a probe
    for (si, s) in subs.iter_mut().enumerate() {
        let mut seen = false;
        for k in 0..400 {
            if let Err(e) = probe.send(K::item(format!("probe-{si}-{k}").into_bytes())).await {
                return Outcome::Inconclusive(format!("probe send failed: {e}"));
            }
            match tokio::time::timeout(Duration::from_millis(25), s.next()).await {
                Ok(Some(Ok(_))) => {
                    seen = true;
                    break;
                }
                Ok(Some(Err(e))) => return Outcome::fail("subscriber-error-during-warmup", format!("{e}")),
                Ok(None) => return Outcome::fail("subscriber-ended-during-warmup", "stream ended"),
                Err(_) => {}
            }
        }
        if !seen {
            return Outcome::Inconclusive(format!("warm-up: subscriber {si} saw no probe within 10 s"));
        }
    }
    // All subscribers are drained concurrently: a subscriber that is not being read
    // back-pressures the whole topic (documented server behaviour), which would stall the
    // others through no fault of the code under test.
    enum Ev<I> {
        Item(I),
        Err(String),
        End,
    }
    let (tx, mut rx) = tokio::sync::mpsc::unbounded_channel::<(usize, Ev<K::Item>)>();
    let mut readers = vec![];
    for (si, mut s) in subs.into_iter().enumerate() {
        let tx = tx.clone();
        readers.push(tokio::spawn(async move {
            loop {
                let ev = match s.next().await {
                    Some(Ok(m)) => Ev::Item(m),
                    Some(Err(e)) => Ev::Err(e.to_string()),
                    None => Ev::End,
                };
                let stop = !matches!(ev, Ev::Item(_));
                if tx.send((si, ev)).is_err() || stop {
                    break;
                }
            }
        }));
    }
    drop(tx);
    // publisher under test
    let mut mb = client.publisher(&topic).with_encoder(K::enc());
    if let Some(a) = c.comp {
        mb = mb.with_compression(CompBox(c14::make(a).0));
    }
    if let Some((sz, iv)) = c.batching {
        mb = mb.with_batching(BatchConfig::new(sz, interval_of(iv)));
    }
    let mut p = match mb.open().await {
        Ok(p) => p,
        Err(e) => return Outcome::fail("publisher-open-failed", format!("{e}")),
    };
    let dup_at = c.dup_at.map(|d| d as usize % (items.len() + 1));
    let copy_items: Vec<K::Item> = if dup_at.is_some() { (0..1 + c.seed as usize % 3).map(|j| K::item(format!("copy-{j}").into_bytes())).collect() } else { vec![] };
    macro_rules! duplicate_here {
        () => {{
            // the copy is a publisher of its own on the same topic with the same settings:
            // what it sends arrives once, in its own order, and nothing of the original's
            let mut p2 = match p.duplicate().await {
                Ok(p2) => p2,
                Err(e) => return Outcome::fail("duplicate-failed", format!("{e}")),
            };
            for it in &copy_items {
                if let Err(e) = p2.send(it.clone()).await {
                    return Outcome::fail("publisher-refused-item", format!("the duplicated publisher refused an item: {e}"));
                }
            }
            match tokio::time::timeout(Duration::from_secs(20), p2.finish()).await {
                Ok(Ok(())) => {}
                Ok(Err(e)) => return Outcome::fail("finish-error", format!("finish() of the duplicated publisher returned {e}")),
                Err(_) => return Outcome::Inconclusive("finish() of the duplicated publisher did not return within 20 s".into()),
            }
        }};
    }
    let oversize_at = c.oversize_at.filter(|_| c.batching.is_none() && c.comp.is_none() && c.codec % 3 != 2).map(|d| d as usize % (items.len() + 1));
    macro_rules! oversize_here {
        () => {{
            let big = K::item(vec![b'Z'; LIMIT + 1]);
            let r = if c.use_feed { p.feed(big).await } else { p.send(big).await };
            if r.is_ok() {
                return Outcome::fail("oversize-item-accepted", format!("an item of {} bytes (over the frame limit) was accepted by the publisher", LIMIT + 1));
            }
        }};
    }
    for (i, it) in items.iter().enumerate() {
        if oversize_at == Some(i) {
            oversize_here!();
        }
        if dup_at == Some(i) {
            duplicate_here!();
        }
        let r = if c.use_feed { p.feed(it.clone()).await } else { p.send(it.clone()).await };
        if let Err(e) = r {
            return Outcome::fail("publisher-refused-item", format!("item {i} ({} bytes) refused: {e}", c.item_bytes(i).len()));
        }
    }
    if oversize_at == Some(items.len()) {
        oversize_here!();
    }
    if dup_at == Some(items.len()) {
        duplicate_here!();
    }
    let end = K::item(b"END-OF-CASE".to_vec());
    if let Err(e) = p.feed(end.clone()).await {
        return Outcome::fail("publisher-refused-item", format!("end marker refused: {e}"));
    }
    match tokio::time::timeout(Duration::from_secs(20), p.finish()).await {
        Ok(Ok(())) => {}
        Ok(Err(e)) => return Outcome::fail("finish-error", format!("finish() returned {e}")),
        Err(_) => return Outcome::Inconclusive("finish() did not return within 20 s".into()),
    }
    let probe_tag = b"probe-".to_vec();
    let nsub = readers.len();
    let mut got: Vec<Vec<K::Item>> = (0..nsub).map(|_| vec![]).collect();
    let mut got_copy: Vec<Vec<K::Item>> = (0..nsub).map(|_| vec![]).collect();
    let mut ended = vec![false; nsub];
    let mut alive = vec![false; nsub];
    let mut failure: Option<Outcome> = None;
    let hard = Instant::now() + Duration::from_secs(40);
    let mut last = Instant::now();
    let mut probed_at: Option<Instant> = None;
    let mut control_saw_probe = false;
    // (the copy of a duplicated publisher is a publisher of its own: its items may arrive
    // before, between or after the original's, also after the original's end marker)
    while failure.is_none() && !(0..nsub).all(|i| ended[i] && got_copy[i].len() >= copy_items.len()) && Instant::now() < hard {
        match tokio::time::timeout(Duration::from_millis(250), rx.recv()).await {
            Ok(Some((si, Ev::Item(m)))) => {
                last = Instant::now();
                if K::tag(&m).starts_with(b"probe-final") {
                    alive[si] = true;
                    continue;
                }
                if dup_at.is_some() && K::tag(&m).starts_with(b"copy-") {
                    got_copy[si].push(m);
                    continue;
                }
                if K::tag(&m).starts_with(&probe_tag) || ended[si] {
                    continue;
                }
                if m == end {
                    ended[si] = true;
                    continue;
                }
                got[si].push(m);
                if got[si].len() > items.len() + 5 {
                    ended[si] = true;
                }
            }
            Ok(Some((si, Ev::Err(e)))) => failure = Some(Outcome::fail("subscriber-yielded-error", format!("subscriber {si}: {e} after {} items", got[si].len()))),
            Ok(Some((si, Ev::End))) => {
                if !ended[si] {
                    failure = Some(Outcome::fail("subscriber-stream-ended", format!("subscriber {si}: stream ended after {} of {} items", got[si].len(), items.len())));
                }
            }
            Ok(None) => break,
            Err(_) => {
                if last.elapsed() > Duration::from_secs(2) {
                    match probed_at {
                        None => {
                            // liveness probe along the same path (same topic, same subscribers),
                            // witnessed by a fresh control subscriber with the same configuration:
                            // "the control sees the probe, the subscriber under test does not" tells a
                            // stuck subscriber apart from a dead path
                            let mut cb = client.subscriber(&topic).with_decoder(K::dec());
                            if let Some(a) = c.comp {
                                cb = cb.with_decompression(DecompBox(c14::make(a).1));
                            }
                            if let Ok(mut ctl) = cb.open().await {
                                for _ in 0..100 {
                                    if probe.send(K::item(b"probe-final".to_vec())).await.is_err() {
                                        break;
                                    }
                                    match tokio::time::timeout(Duration::from_millis(60), ctl.next()).await {
                                        Ok(Some(Ok(m))) if K::tag(&m).starts_with(b"probe-final") => {
                                            control_saw_probe = true;
                                            break;
                                        }
                                        _ => {}
                                    }
                                }
                            } else if probe.send(K::item(b"probe-final".to_vec())).await.is_err() {
                                failure = Some(Outcome::Inconclusive("liveness probe could not be sent".into()));
                            }
                            probed_at = Some(Instant::now());
                            last = Instant::now();
                        }
                        Some(t) if t.elapsed() > Duration::from_secs(6) => break,
                        _ => {}
                    }
                }
            }
        }
    }
    for r in &readers {
        r.abort();
    }
    if let Some(f) = failure {
        return f;
    }
    for si in 0..nsub {
        if !ended[si] {
            if alive[si] {
                return Outcome::fail(
                    "tail-lost",
                    format!("subscriber {si}: finish() returned Ok but only {} of {} items (+ end marker) arrived, while a later probe on the same topic did arrive", got[si].len(), items.len()),
                );
            }
            if control_saw_probe {
                return Outcome::fail(
                    "subscriber-stuck",
                    format!("subscriber {si} stopped yielding after {} of {} items: a control subscriber opened afterwards on the same topic received the liveness probe, this one received neither it nor the rest", got[si].len(), items.len()),
                );
            }
            return Outcome::Inconclusive(format!("subscriber {si}: neither the end marker nor the liveness probe arrived"));
        }
        if dup_at.is_some() && got_copy[si] != copy_items {
            return Outcome::fail(
                "duplicated-publisher-items",
                format!("subscriber {si}: the duplicated publisher sent {} item(s) and finished; received from it: {:?}", copy_items.len(), got_copy[si].iter().map(|g| String::from_utf8_lossy(&K::tag(g)).into_owned()).collect::<Vec<_>>()),
            );
        }
        let got = &got[si];
        if *got != items {
            let firstbad = got.iter().zip(items.iter()).position(|(a, b)| a != b);
            let kind = if got.len() > items.len() {
                "duplicated-or-extra"
            } else if got.len() < items.len() {
                "items-missing"
            } else {
                let mut a: Vec<Vec<u8>> = got.iter().map(K::tag).collect();
                let mut b: Vec<Vec<u8>> = items.iter().map(K::tag).collect();
                a.sort();
                b.sort();
                if a == b { "reordered" } else { "value-differs" }
            };
            return Outcome::fail(
                kind,
                format!("subscriber {si}: got {} items, sent {}; first difference at {:?}; got tags {:?} …", got.len(), items.len(), firstbad, got.iter().take(8).map(|g| String::from_utf8_lossy(&K::tag(g)).into_owned()).collect::<Vec<_>>()),
            );
        }
    }
    let mut labels = vec![["codec-string", "codec-bytes", "codec-bincode"][(c.codec % 3) as usize]];
    let bsz = c.batching.map(|b| b.0 as usize);
    if c.batching.is_some() { labels.push("batching"); } else { labels.push("unbatched"); }
    let partial = bsz.map_or(false, |b| b > 0 && (n + 1) % b != 0);
    if partial { labels.push("count-not-multiple-of-batch"); }
    if let Some(a) = c.comp { labels.push(c14::make(a).2); } else { labels.push("uncompressed"); }
    let big = (0..n).any(|i| c.item_bytes(i).len() > 4096);
    if big { labels.push("payload>4KiB"); }
    if (0..n).any(|i| c.item_bytes(i).len() > 500_000) { labels.push("payload-near-frame-limit"); }
    if c.nsubs % 3 >= 1 { labels.push("multiple-subscribers"); }
    if n == 0 { labels.push("zero-items"); }
    if dup_at.is_some() { labels.push("publisher-duplicated"); }
    if oversize_at.is_some() { labels.push("refused-oversize-item-then-more"); }
    if let (Some(d), Some(b)) = (dup_at, bsz) { if b > 1 && d % b != 0 { labels.push("duplicated-with-partial-batch"); } }
    if let Some((_, k)) = c.batching { labels.push(["interval-0", "interval-1ms", "interval-1h", "interval-max"][(k % 4) as usize]); }
    Outcome::pass(labels, partial || (c.comp.is_some() && big) || c.nsubs % 3 >= 1)
}

pub async fn run_case(addr: SocketAddr, certs: &Certs, c: &Case) -> Outcome {
    let fut = async {
        match c.codec % 3 {
            0 => run_typed::<KString>(addr, certs, c).await,
            1 => run_typed::<KBytes>(addr, certs, c).await,
            _ => run_typed::<KBincode>(addr, certs, c).await,
        }
    };
    match tokio::time::timeout(Duration::from_secs(90), fut).await {
        Ok(o) => o,
        Err(_) => Outcome::Inconclusive("case exceeded 90 s".into()),
    }
}

pub fn strategy() -> BoxedStrategy<Case> {
    let comp = prop_oneof![
        3 => Just(None),
        6 => c14::algo_strategy().prop_filter("slow levels are exercised by C14; here hundreds of small batches are compressed per case", |a| !c14::is_slow(*a) && !matches!(a, Algo::Zstd(l) if l % 23 > 9) && !matches!(a, Algo::Brotli { level, .. } if level % 12 > 8)).prop_map(Some),
    ];
    let batching = prop_oneof![
        3 => Just(None),
        7 => (prop_oneof![2 => Just(1u32), 4 => 2u32..12, 2 => 12u32..120, 1 => 120u32..=300, 1 => Just(0u32), 1 => Just(100_000u32)], prop_oneof![3 => Just(2u8), 2 => Just(1u8), 2 => Just(0u8), 1 => Just(3u8)]).prop_map(Some),
    ];
    (0u8..3, comp, batching, 0u8..3, 0u8..6, any::<u8>(), any::<u16>(), proptest::collection::vec(prop_oneof![8 => 0u8..5, 2 => Just(5u8), 1 => Just(6u8), 1 => Just(7u8), 1 => Just(9u8)], 1..6), 0u8..5, any::<bool>(), (any::<u16>(), prop_oneof![3 => Just(None), 1 => any::<u8>().prop_map(Some)], prop_oneof![2 => Just(None), 1 => any::<u8>().prop_map(Some)]))
        .prop_map(|(codec, comp, batching, nsubs, count_kind, count_k, count_r, sizes, content, use_feed, (seed, dup_at, oversize_at))| Case { codec, comp, batching, nsubs, count_kind, count_k, count_r, sizes, content, use_feed, seed, dup_at, oversize_at })
        .boxed()
}

pub fn run(ctx: &mut Ctx) {
    ctx.rule = "configuration x workload: codec {String, Bytes, Bincode<nested struct>} x compression {none, gzip/zlib 0-9, zstd 0-18, lz4, brotli 3 modes x 0-9, presets} x batching {off, BatchConfig::new(size in {0,1,2..300,100000}, interval in {0, 1 ms, 1 h, Duration::MAX})} x 1-3 subscribers; item count chosen relative to the batch size (0, 1, size-1, size, size+1, k*size+r); payload size classes 0 B .. just under the frame limit (clipped so a whole batch fits one frame), content kinds random/repeated/periodic/mixed/text; items submitted with send or feed; unbatched uncompressed publishers are in a third of the cases also offered an over-limit item at a generated point, which must be refused without harming the items accepted afterwards; in a quarter of the cases the publisher is duplicated after a generated number of items (also with a partially filled batch) and the copy sends 1-3 items of its own and finishes, which must arrive exactly once and leave the original's sequence untouched; each subscriber is warmed up with probes from a second publisher before the publisher under test starts; non-trivial = batching with a count that is not a multiple of the batch size, or compression with a payload > 4 KiB, or >= 2 subscribers; distinct by case hash".into();
    ctx.assumptions.push("'registration took effect' is established by a probe item from a second publisher having been yielded by every subscriber".into());
    ctx.assumptions.push("a batch that would exceed the frame limit is outside 'items the publisher accepted' and is not generated; batch sizes above 100000 are not generated (the client pre-allocates the batch vector)".into());
    let env = match Env::new() {
        Ok(e) => e,
        Err(e) => {
            ctx.inconclusive(format!("environment: {e}"));
            return;
        }
    };
    let server = match env.rt.block_on(async { TestServer::start(&env.certs) }) {
        Ok(s) => s,
        Err(e) => {
            ctx.inconclusive(format!("server start: {e}"));
            return;
        }
    };
    let addr = server.addr;
    let certs = env.certs.clone();
    let handle = env.rt.handle().clone();
    ctx.shrink_iters = 14;
    ctx.workers = ctx.workers.min(6);
    ctx.search("e2e-pubsub", strategy, ctx.tier.pick(1_500, 30_000), true, move |c: &Case| {
        crate::core::watchdog::tick();
        let t0 = Instant::now();
        let r = crate::core::catch(|| handle.block_on(run_case(addr, &certs, c)));
        if t0.elapsed() > Duration::from_secs(3) && std::env::var("VERIF_DEBUG").is_ok() {
            eprintln!("slow case {:?}: {} -> {:?}", t0.elapsed(), serde_json::to_string(c).unwrap(), r.as_ref().map(|o| format!("{o:?}").chars().take(200).collect::<String>()));
        }
        match r {
            Ok(o) => o,
            Err(p) => Outcome::fail(format!("panic:{}", crate::core::panics::normalise(&p)), format!("client panicked: {p}")),
        }
    });
    drop(server);
}

pub fn replay(id: &str, case: &serde_json::Value) -> i32 {
    let env = match Env::new() {
        Ok(e) => e,
        Err(e) => {
            eprintln!("environment: {e}");
            return 2;
        }
    };
    let server = env.rt.block_on(async { TestServer::start(&env.certs) }).expect("server");
    let addr = server.addr;
    crate::core::replay_case::<Case>(id, case, 3, |c| match crate::core::catch(|| env.rt.block_on(run_case(addr, &env.certs, c))) { Ok(o) => o, Err(p) => Outcome::fail(format!("panic:{}", crate::core::panics::normalise(&p)), format!("panicked: {p}")) })
}
