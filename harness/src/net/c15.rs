//! C15 — mutual TLS: only peers certified by the configured CA can talk.
//! Finite identity matrix, enumerated with freshly generated keys every run.
use super::*;
use crate::core::{Ctx, Outcome};
use selium::prelude::*;
use selium::std::codecs::StringCodec;
use serde::{Deserialize, Serialize};

#[derive(Debug, Clone, Serialize, Deserialize, Hash, PartialEq, Eq)]
pub struct Case {
    /// 0 trusted CA, 1 other CA, 2 self-signed, 3 no certificate
    pub client: u8,
    /// 0 trusted CA, 1 other CA (server certificate from CA B, clients still verified
    /// against CA A: isolates the client's check), 2 other CA for everything
    pub server: u8,
    /// 0 publisher, 1 subscriber, 2 requestor, 3 replier
    pub kind: u8,
    /// which CA the client is configured to trust: 0 = CA A (the "trusted" one), 1 = CA B
    #[serde(default)]
    pub client_ca: u8,
}

pub struct Pki {
    pub a: Certs,
    pub b: Certs,
    pub self_dir: std::path::PathBuf,
}

impl Pki {
    pub fn generate(base: &std::path::Path) -> anyhow::Result<Self> {
        // CA A: the default (short-lived) set, renewed in place several times; CA B: a set
        // generated with --no-expiry. Both are "the certificate set produced by the bundled
        // generator" and each must satisfy both directions.
        let a = Certs::generate_opts(&base.join("A"), false, 8)?;
        let b = Certs::generate_opts(&base.join("B"), true, 1)?;
        let self_dir = base.join("self");
        std::fs::create_dir_all(&self_dir)?;
        let c = rcgen::generate_simple_self_signed(vec!["localhost".into()])?;
        std::fs::write(self_dir.join("localhost.der"), c.serialize_der()?)?;
        std::fs::write(self_dir.join("localhost.key.der"), c.serialize_private_key_der())?;
        // PEM "full chain" identity files (leaf followed by its issuer), as deployments use them
        for (set, side) in [(&a, "client"), (&a, "server"), (&b, "client"), (&b, "server")] {
            let leaf = std::fs::read(set.p(&format!("{side}/localhost.der")))?;
            let ca = std::fs::read(set.p(&format!("{side}/ca.der")))?;
            std::fs::write(set.p(&format!("{side}/fullchain.pem")), format!("{}{}", pem("CERTIFICATE", &leaf), pem("CERTIFICATE", &ca)))?;
        }
        Ok(Pki { a, b, self_dir })
    }
}

const T: Duration = Duration::from_secs(6);

fn pem(label: &str, der: &[u8]) -> String {
    const A: &[u8; 64] = b"ABCDEFGHIJKLMNOPQRSTUVWXYZabcdefghijklmnopqrstuvwxyz0123456789+/";
    let mut b64 = String::new();
    for ch in der.chunks(3) {
        let n = (ch[0] as u32) << 16 | (*ch.get(1).unwrap_or(&0) as u32) << 8 | *ch.get(2).unwrap_or(&0) as u32;
        b64.push(A[(n >> 18) as usize & 63] as char);
        b64.push(A[(n >> 12) as usize & 63] as char);
        b64.push(if ch.len() > 1 { A[(n >> 6) as usize & 63] as char } else { '=' });
        b64.push(if ch.len() > 2 { A[n as usize & 63] as char } else { '=' });
    }
    let mut out = format!("-----BEGIN {label}-----\n");
    for line in b64.as_bytes().chunks(64) {
        out.push_str(std::str::from_utf8(line).unwrap());
        out.push('\n');
    }
    out.push_str(&format!("-----END {label}-----\n"));
    out
}

/// Ok(true) = registration answered Ok; Ok(false) = refused somewhere; Err = harness trouble
async fn try_register_lib(addr: SocketAddr, ca: &str, cert: &str, key: &str, kind: u8, topic: &str) -> Result<bool, String> {
    let fut = async {
        let c = selium::custom().keep_alive(5_000u64)?.endpoint(&addr.to_string()).with_certificate_authority(ca)?.with_cert_and_key(cert, key)?.connect().await?;
        match kind % 4 {
            0 => {
                let mut p = c.publisher(topic).with_encoder(StringCodec).open().await?;
                p.send("from-untrusted".to_string()).await?;
            }
            1 => {
                let _s = c.subscriber(topic).with_decoder(StringCodec).open().await?;
            }
            2 => {
                let _r = c.requestor(topic).with_request_encoder(StringCodec).with_reply_decoder(StringCodec).open().await?;
            }
            _ => {
                let _r = c.replier(topic).with_request_decoder(StringCodec).with_reply_encoder(StringCodec).with_handler(|s: String| async move { Ok::<_, String>(s) }).open().await?;
            }
        }
        Ok::<_, selium::std::errors::SeliumError>(())
    };
    match tokio::time::timeout(T, fut).await {
        Ok(Ok(())) => Ok(true),
        Ok(Err(_)) => Ok(false),
        // a registration that is never answered is "not registered"
        Err(_) => Ok(false),
    }
}

async fn try_register_raw(addr: SocketAddr, id: &RawIdentity, kind: u8, ns: &str, t: &str) -> Result<bool, String> {
    let conn = match raw_connect(addr, id).await {
        Ok(c) => c,
        Err(_) => return Ok(false),
    };
    let f = match kind % 4 {
        0 => reg_pub(ns, t),
        1 => reg_sub(ns, t),
        2 => reg_req(ns, t),
        _ => reg_rep(ns, t),
    };
    match raw_open(&conn, f, T).await {
        Ok((_, FirstReply::Frame(Frame::Ok))) => Ok(true),
        _ => Ok(false),
    }
}

pub async fn run_case(pki: &Pki, c: &Case) -> Outcome {
    let (a, b) = (&pki.a, &pki.b);
    let server = match c.server % 3 {
        0 => TestServer::start(a),
        1 => TestServer::start_with(&a.server_ca(), &b.p("server/fullchain.pem"), &b.server_key()),
        _ => TestServer::start_with(&b.server_ca(), &b.p("server/fullchain.pem"), &b.server_key()),
    };
    let server = match server {
        Ok(s) => s,
        // the server is given exactly the files the bundled generator wrote: they must load
        Err(e) if c.server % 3 == 0 => return Outcome::fail("generated-set-unusable", format!("the server does not start with the CA, certificate and key files written by the bundled generator: {e}")),
        Err(e) => return Outcome::Inconclusive(format!("server start: {e}")),
    };
    let addr = server.addr;
    let ns = "tlsns";
    let tn = format!("topic-{}", fresh_id());
    let topic = format!("/{ns}/{tn}");
    // the server verifies clients against CA A (server 0, 1) or CA B (server 2) and presents a
    // certificate from CA A (server 0) or CA B (server 1, 2); the client presents a certificate
    // from CA A (client 0) / CA B (client 1) / self-signed / none and trusts CA A or CA B
    let server_trusts_a = c.server % 3 != 2;
    let server_cert_from_a = c.server % 3 == 0;
    let client_cert_ok = match c.client % 4 { 0 => server_trusts_a, 1 => !server_trusts_a, _ => false };
    let server_cert_ok = server_cert_from_a == (c.client_ca % 2 == 0);
    let expect_ok = client_cert_ok && server_cert_ok;
    // a trusted observer on the same topic (only meaningful when the server is the trusted one)
    let mut observer = None;
    if c.server % 3 == 0 && c.kind % 4 == 0 {
        if let Ok(cl) = client(addr, a).await {
            if let Ok(s) = cl.subscriber(&topic).with_decoder(StringCodec).open().await {
                observer = Some(s);
            }
        }
    }
    let ca = if c.client_ca % 2 == 0 { a.client_ca() } else { b.client_ca() };
    let registered = match c.client % 4 {
        0 => try_register_lib(addr, &ca, &a.client_cert(), &a.client_key(), c.kind, &topic).await,
        1 => try_register_lib(addr, &ca, &b.p("client/fullchain.pem"), &b.client_key(), c.kind, &topic).await,
        2 => try_register_lib(addr, &ca, &pki.self_dir.join("localhost.der").to_string_lossy(), &pki.self_dir.join("localhost.key.der").to_string_lossy(), c.kind, &topic).await,
        _ => {
            let id = RawIdentity { ca_der: std::fs::read(&ca).unwrap_or_default(), cert_key: None };
            try_register_raw(addr, &id, c.kind, ns, &tn).await
        }
    };
    let registered = match registered {
        Ok(r) => r,
        Err(e) => return Outcome::Inconclusive(e),
    };
    let who = ["a certificate from CA A", "a certificate from CA B", "a self-signed certificate", "no certificate"][(c.client % 4) as usize];
    let srv = ["presenting a CA-A certificate and verifying clients against CA A", "presenting a CA-B certificate and verifying clients against CA A", "presenting a CA-B certificate and verifying clients against CA B"][(c.server % 3) as usize];
    let trusts = ["CA A", "CA B"][(c.client_ca % 2) as usize];
    if !expect_ok && c.server % 3 == 0 && c.client_ca % 2 == 0 {
        // the refused attempt above was made against the fully trusted server: a client
        // holding the generated set must still be served by that same server instance
        let t2 = format!("/{ns}/after-{}", fresh_id());
        match try_register_lib(addr, &a.client_ca(), &a.client_cert(), &a.client_key(), c.kind, &t2).await {
            Ok(true) => {}
            Ok(false) => return Outcome::fail("trusted-pair-refused-after-refused-peer", format!("after a client with {} was turned away, a client with the generated certificate set can no longer register on the same server", ["a certificate from CA A", "a certificate from CA B", "a self-signed certificate", "no certificate"][(c.client % 4) as usize])),
            Err(e) => return Outcome::Inconclusive(e),
        }
    }
    if registered && !expect_ok {
        return Outcome::fail(
            if !client_cert_ok { "untrusted-client-registered" } else { "client-talked-to-untrusted-server" },
            format!("a client with {who}, configured to trust {trusts}, registered a stream (kind {}) on a server {srv}", c.kind % 4),
        );
    }
    if !registered && expect_ok {
        return Outcome::fail("trusted-pair-refused", format!("a client with {who} trusting {trusts} and a server {srv} certify each other, yet registering stream kind {} failed", c.kind % 4));
    }
    if let Some(mut obs) = observer {
        // nothing from an untrusted publisher may reach the topic
        match tokio::time::timeout(Duration::from_millis(if expect_ok { 3000 } else { 300 }), obs.next()).await {
            Ok(Some(Ok(m))) if !expect_ok => return Outcome::fail("untrusted-traffic-delivered", format!("a trusted subscriber received {m:?} published by a client with {who}")),
            Ok(Some(Ok(_))) => {}
            _ if expect_ok => {
                // the publisher sent once right after Ok; the subscriber may have been adopted later: not a verdict
            }
            _ => {}
        }
    }
    if expect_ok && c.kind % 4 >= 2 && c.server % 3 == 0 {
        // complete a request/reply exchange between two trusted clients
        let fut = async {
            let cl = client(addr, a).await?;
            let t2 = format!("/{ns}/rr-{}", fresh_id());
            let rep = cl.replier(&t2).with_request_decoder(StringCodec).with_reply_encoder(StringCodec).with_handler(|s: String| async move { Ok::<_, String>(format!("re:{s}")) }).open().await.map_err(|e| e.to_string())?;
            let h = tokio::spawn(async move { let mut rep = rep; let _ = rep.listen().await; });
            let mut rq = cl.requestor(&t2).with_request_encoder(StringCodec).with_reply_decoder(StringCodec).with_request_timeout(Duration::from_millis(500)).map_err(|e| e.to_string())?.open().await.map_err(|e| e.to_string())?;
            let mut ok = false;
            for _ in 0..10 {
                if let Ok(v) = rq.request("hello".to_string()).await {
                    ok = v == "re:hello";
                    break;
                }
            }
            h.abort();
            if ok { Ok(()) } else { Err("no reply".to_string()) }
        };
        if let Err(e) = tokio::time::timeout(Duration::from_secs(15), fut).await.unwrap_or(Err("timeout".into())) {
            return Outcome::fail("trusted-pair-cannot-exchange", format!("trusted client and server registered but could not complete a request/reply exchange: {e}"));
        }
    }
    let labels = vec![
        ["client-cert-ca-a", "client-cert-ca-b", "client-self-signed", "client-no-cert"][(c.client % 4) as usize],
        ["server-cert-a-trusts-a", "server-cert-b-trusts-a", "server-cert-b-trusts-b"][(c.server % 3) as usize],
        ["client-trusts-ca-a", "client-trusts-ca-b"][(c.client_ca % 2) as usize],
        if expect_ok { "pairing-must-work" } else { "pairing-must-be-refused" },
    ];
    Outcome::pass(labels, !expect_ok)
}

pub fn run(ctx: &mut Ctx) {
    ctx.rule = "the full product client certificate {CA A, CA B, self-signed, none} x CA the client trusts {A, B} x server identity {cert A / verifies clients against A, cert B / verifies against A (isolates the client's check of the server), cert B / verifies against B} x stream kind (4), with freshly generated keys every run (CA A: the generator's default set, regenerated eight times over the same directory; CA B: a --no-expiry set); the CA-B identities are presented as PEM full-chain files (leaf + issuer), the CA-A ones as the generator's DER files (two independent runs of the bundled generator give the two CAs, rcgen the self-signed certificate, a raw quinn client the certificate-less peer); quick enumerates all 24 identity triples with one seed-chosen stream kind each (all four for the fully trusted triple), thorough all 96 cells twice; after every refused attempt against the fully trusted server a client with the generated set must still be served by the same server instance; oracle: a registration is answered Ok exactly when the client's certificate chains to the CA the server verifies against AND the server's certificate chains to the CA the client trusts (three of the 24 triples), every other pairing is never answered Ok and nothing it publishes reaches a trusted subscriber; non-trivial = any pairing other than trusted x trusted".into();
    ctx.assumptions.push("configuration enumeration: expiry, revocation and key-usage variations are outside the property".into());
    let env = match Env::new() {
        Ok(e) => e,
        Err(e) => return ctx.inconclusive(format!("environment: {e}")),
    };
    let pki = match Pki::generate(&env.work.0.join("pki")) {
        Ok(p) => p,
        Err(e) => return ctx.inconclusive(format!("pki: {e}")),
    };
    let seed = ctx.seed;
    let mut cases = vec![];
    let rounds = ctx.tier.pick(1, 2);
    for round in 0..rounds {
        for client in 0..4u8 {
            for server in 0..3u8 {
                for client_ca in 0..2u8 {
                    for kind in 0..4u8 {
                        // quick: one stream kind per identity triple (chosen by the seed), thorough: all
                        if ctx.tier == crate::core::Tier::Quick && kind != (crate::core::mix(seed, (client * 6 + server * 2 + client_ca) as u64) % 4) as u8 && !(client == 0 && server == 0 && client_ca == 0) {
                            continue;
                        }
                        cases.push(Case { client, server, kind, client_ca });
                    }
                }
            }
        }
        let _ = round;
    }
    let rt = &env.rt;
    ctx.enumerate("identity-matrix", cases.into_iter(), |c| {
        crate::core::watchdog::tick();
        match crate::core::catch(|| rt.block_on(run_case(&pki, c))) {
            Ok(o) => o,
            Err(p) => Outcome::fail(format!("panic:{}", crate::core::panics::normalise(&p)), format!("panicked: {p}")),
        }
    });
    if !ctx.failed() {
        ctx.exhaustive = Some(true);
    }
}

pub fn replay(id: &str, case: &serde_json::Value) -> i32 {
    let env = match Env::new() {
        Ok(e) => e,
        Err(e) => {
            eprintln!("environment: {e}");
            return 2;
        }
    };
    let pki = Pki::generate(&env.work.0.join("pki")).expect("pki");
    crate::core::replay_case::<Case>(id, case, 2, |c| env.rt.block_on(run_case(&pki, c)))
}
