//! A scripted fake server (bare quinn endpoint with the real server's TLS config) that
//! can refuse registrations or cut the connection at any scripted point.
use super::Certs;
use futures::{SinkExt, StreamExt};
use selium_protocol::{BiStream, ErrorPayload, Frame, MessagePayload};
use selium_server::quic::{load_root_store, read_certs, server_config, ConfigOptions};
use std::collections::{HashMap, VecDeque};
use std::net::SocketAddr;
use std::sync::{Arc, Mutex};
use tokio::sync::mpsc;

#[derive(Clone, Copy, Debug, PartialEq, Eq)]
pub enum Verdict {
    Accept,
    /// answer the registration with the retryable REPLIER_ALREADY_BOUND error
    Busy,
    /// answer with a non-retryable error frame
    Fatal,
    /// accept the stream, read the registration, then close the whole connection
    DropConn,
}

#[derive(Default)]
pub struct Shared {
    pub conns: Vec<quinn::Connection>,
    pub script: VecDeque<Verdict>,
    /// every registration seen: (frame, verdict applied)
    pub regs: Vec<(Frame, Verdict)>,
    pub pub_msgs: Vec<Vec<u8>>,
    pub sub_tx: Vec<mpsc::UnboundedSender<Vec<u8>>>,
    pub rep_tx: Vec<mpsc::UnboundedSender<Vec<u8>>>,
    pub rep_answers: Vec<Vec<u8>>,
}
pub type Sh = Arc<Mutex<Shared>>;

pub struct FakeServer {
    pub addr: SocketAddr,
    pub sh: Sh,
    task: tokio::task::JoinHandle<()>,
    ep: quinn::Endpoint,
}
impl Drop for FakeServer {
    fn drop(&mut self) {
        self.task.abort();
        self.ep.close(quinn::VarInt::from_u32(0), b"done");
    }
}

impl FakeServer {
    pub fn start(certs: &Certs) -> anyhow::Result<Self> {
        let roots = load_root_store(certs.server_ca())?;
        let (chain, key) = read_certs(certs.server_cert(), certs.server_key())?;
        let cfg = server_config(roots, chain, key, ConfigOptions { keylog: false, stateless_retry: false, max_idle_timeout: quinn::IdleTimeout::from(quinn::VarInt::from_u32(30_000)) })?;
        let ep = quinn::Endpoint::server(cfg, "127.0.0.1:0".parse().unwrap())?;
        let addr = ep.local_addr()?;
        let sh: Sh = Default::default();
        let sh2 = sh.clone();
        let ep2 = ep.clone();
        let task = tokio::spawn(async move {
            while let Some(c) = ep2.accept().await {
                let sh = sh2.clone();
                tokio::spawn(async move {
                    let Ok(conn) = c.await else { return };
                    sh.lock().unwrap().conns.push(conn.clone());
                    while let Ok(s) = conn.accept_bi().await {
                        let sh = sh.clone();
                        let conn = conn.clone();
                        tokio::spawn(handle_stream(sh, conn, BiStream::from(s)));
                    }
                });
            }
        });
        Ok(FakeServer { addr, sh, task, ep })
    }
    /// cut every live connection (the "outage")
    pub fn cut(&self) {
        for c in self.sh.lock().unwrap().conns.drain(..) {
            c.close(quinn::VarInt::from_u32(9), b"cut");
        }
    }
}

async fn handle_stream(sh: Sh, conn: quinn::Connection, mut s: BiStream) {
    let Some(Ok(first)) = s.next().await else { return };
    let v = {
        let mut g = sh.lock().unwrap();
        let v = g.script.pop_front().unwrap_or(Verdict::Accept);
        g.regs.push((first.clone(), v));
        v
    };
    match v {
        Verdict::DropConn => {
            conn.close(quinn::VarInt::from_u32(7), b"drop");
            return;
        }
        Verdict::Busy => {
            let _ = s.send(Frame::Error(ErrorPayload { code: selium_protocol::error_codes::REPLIER_ALREADY_BOUND, message: "busy".into() })).await;
            let _ = s.close().await;
            return;
        }
        Verdict::Fatal => {
            let _ = s.send(Frame::Error(ErrorPayload { code: selium_protocol::error_codes::INVALID_TOPIC_NAME, message: "fatal".into() })).await;
            let _ = s.close().await;
            return;
        }
        Verdict::Accept => {}
    }
    if s.send(Frame::Ok).await.is_err() {
        return;
    }
    match first {
        Frame::RegisterPublisher(_) => {
            while let Some(Ok(f)) = s.next().await {
                match f {
                    Frame::Message(m) => sh.lock().unwrap().pub_msgs.push(m.message.to_vec()),
                    Frame::BatchMessage(b) => {
                        // plain (uncompressed) batches only in this harness
                        let mut b = b.clone();
                        use bytes::Buf;
                        if b.remaining() >= 8 {
                            let n = b.get_u64();
                            for _ in 0..n {
                                if b.remaining() < 8 { break; }
                                let l = b.get_u64() as usize;
                                if b.remaining() < l { break; }
                                sh.lock().unwrap().pub_msgs.push(b.split_to(l).to_vec());
                            }
                        }
                    }
                    _ => {}
                }
            }
        }
        Frame::RegisterSubscriber(_) => {
            let (tx, mut rx) = mpsc::unbounded_channel::<Vec<u8>>();
            sh.lock().unwrap().sub_tx.push(tx);
            while let Some(m) = rx.recv().await {
                if s.send(Frame::Message(MessagePayload { headers: None, message: m.into() })).await.is_err() {
                    break;
                }
            }
        }
        Frame::RegisterRequestor(_) => {
            while let Some(Ok(Frame::Message(m))) = s.next().await {
                let mut b = b"echo:".to_vec();
                b.extend_from_slice(&m.message);
                if m.message.windows(5).any(|w| w == b"-slow") {
                    tokio::time::sleep(std::time::Duration::from_millis(150)).await;
                }
                if s.send(Frame::Message(MessagePayload { headers: m.headers, message: b.into() })).await.is_err() {
                    break;
                }
            }
        }
        Frame::RegisterReplier(_) => {
            let (tx, mut rx) = mpsc::unbounded_channel::<Vec<u8>>();
            sh.lock().unwrap().rep_tx.push(tx);
            loop {
                tokio::select! {
                    Some(q) = rx.recv() => {
                        let mut h = HashMap::new();
                        h.insert("cid".to_string(), "0".to_string());
                        h.insert("req_id".to_string(), "0".to_string());
                        if s.send(Frame::Message(MessagePayload { headers: Some(h), message: q.into() })).await.is_err() { break; }
                    }
                    fr = s.next() => {
                        match fr {
                            Some(Ok(Frame::Message(m))) => sh.lock().unwrap().rep_answers.push(m.message.to_vec()),
                            _ => break,
                        }
                    }
                }
            }
        }
        _ => {}
    }
}
