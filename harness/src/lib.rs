pub mod core;
pub mod router;
pub mod pure;
pub mod net;
pub mod fuzzrun;
