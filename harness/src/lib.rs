pub mod core;
pub mod router;
