use vh::core::{panics, watchdog, Ctx, Tier};

fn usage() -> ! {
    eprintln!("usage: verif <ID> <quick|thorough>  |  verif <ID> --replay <file>");
    std::process::exit(2)
}

fn level_of(id: &str) -> &'static str {
    match id {
        "C08" | "C12" | "C17" => "fault_enumeration",
        _ => "exploration",
    }
}

struct StderrLog;
impl log::Log for StderrLog {
    fn enabled(&self, m: &log::Metadata) -> bool {
        m.level() <= log::Level::Warn && m.target().starts_with("selium")
    }
    fn log(&self, r: &log::Record) {
        if self.enabled(r.metadata()) {
            eprintln!("[{} {}] {}", r.level(), r.target(), r.args());
        }
    }
    fn flush(&self) {}
}
static STDERR_LOG: StderrLog = StderrLog;

fn main() {
    // VERIF_DEBUG: show what the code under test logs at warn/error level (diagnosis only)
    if std::env::var_os("VERIF_DEBUG").is_some() && log::set_logger(&STDERR_LOG).is_ok() {
        log::set_max_level(log::LevelFilter::Warn);
    }
    let args: Vec<String> = std::env::args().collect();
    if args.len() >= 2 && args[1] == "--gen-corpus" { gen_corpus(); return; }
    if args.len() < 3 { usage(); }
    let id: &'static str = Box::leak(args[1].clone().into_boxed_str());
    panics::install();
    watchdog::start(120, "property check");
    let seed: u64 = std::env::var("VERIF_SEED").ok().and_then(|s| s.trim().parse::<i128>().ok()).map(|v| v as u64).unwrap_or(0);
    if args[2] == "--net-child" && id == "C06" {
        let tier = if args.get(3).map(|s| s.as_str()) == Some("thorough") { Tier::Thorough } else { Tier::Quick };
        let seed: u64 = args.get(4).and_then(|s| s.parse().ok()).unwrap_or(0);
        std::process::exit(vh::net::c06n::child_main(tier, seed, &args[5], &args[6]));
    }
    if args[2] == "--massreg-child" {
        std::process::exit(vh::router::massreg::child_main(args.get(3).map(|s| s.as_str()).unwrap_or("")));
    }
    if args[2] == "--replay" {
        let path = args.get(3).unwrap_or_else(|| usage());
        if path.ends_with(".bin") || !path.ends_with(".json") {
            // a libFuzzer crash artifact
            let target = if id == "C05" { "wire" } else { "decoders" };
            std::process::exit(vh::fuzzrun::replay_artifact(id, target, path));
        }
        let txt = std::fs::read_to_string(path).unwrap_or_else(|e| { eprintln!("cannot read {path}: {e}"); std::process::exit(2) });
        let v: serde_json::Value = serde_json::from_str(&txt).unwrap_or_else(|e| { eprintln!("bad replay file: {e}"); std::process::exit(2) });
        let leg = v["leg"].as_str().unwrap_or("").to_string();
        let case = v["case"].clone();
        std::process::exit(replay(id, &leg, &case));
    }
    let tier = match std::env::var("VERIF_TIER").ok().as_deref().or(Some(args[2].as_str())) {
        Some("quick") => Tier::Quick,
        Some("thorough") => Tier::Thorough,
        _ => usage(),
    };
    let mut ctx = Ctx::new(id, tier, seed, level_of(id));
    // regression tier: saved reproducers of repaired findings are replayed first; a fixed
    // finding suppresses nothing, so a reproducer that fails again is a violation
    let regress = if std::env::var("VERIF_NO_REGRESSION").is_ok() { (vec![], 0) } else { regressions(id) };
    if regress.1 > 0 {
        std::process::exit(1);
    }
    ctx.extra.insert("regression_replays".into(), serde_json::json!(regress.0));
    match id {
        "C01" => { vh::router::props::c01(&mut ctx); if !ctx.failed() { vh::net::c07s::run(&mut ctx, false, true); } if !ctx.failed() { vh::net::c01n::run(&mut ctx); } if !ctx.failed() { vh::net::c01f::run(&mut ctx); } ctx.rule.push_str("; leg first-registrations-loopback: 1-16 brand-new topics, each registered at the same instant by 2-3 peers on different connections (pub+sub, sub+sub+pub, pub+pub+sub, requestor+replier) against the real server on a multi-thread runtime: all are answered Ok, so each subscriber must receive what each publisher sends and the requestor must be answered"); }
        "C02" => { vh::router::props::c02(&mut ctx); if !ctx.failed() { vh::net::c02n::run(&mut ctx); } }
        "C08" => vh::router::props::c08(&mut ctx),
        "C09" => { vh::router::props::c09(&mut ctx); if !ctx.failed() { vh::net::c09n::run(&mut ctx); } if !ctx.failed() { vh::router::massreg::run(&mut ctx, "C09"); } ctx.rule.push_str("; leg registration-queue-drain (child process): draining a queue of up to 40000 registrations in one step is bounded work on a 2 MiB stack"); }
        "C10" => { vh::router::props::c10(&mut ctx); if !ctx.failed() { vh::net::c10c::run(&mut ctx); } }
        "C03" => vh::net::c03::run(&mut ctx),
        "C04" => { vh::net::c04::run(&mut ctx); if !ctx.failed() { vh::net::c12r::run(&mut ctx, "calls-after-real-outage", true); } ctx.rule.push_str("; leg calls-after-real-outage: the requestor reaches the real server through a UDP relay that is black-holed for 16-19 s (both ends give the connection up), then 1-2 clones and the original issue concurrent calls against a wire-level replier that answers in reverse order: every call must return its own reply"); }
        "C05" => vh::pure::c05::run(&mut ctx),
        "C06" => { vh::pure::c06::run(&mut ctx); if !ctx.failed() { vh::net::c06n::run_in_child(&mut ctx); } }
        "C07" => { vh::pure::c07::run_grammar(&mut ctx); if !ctx.failed() { vh::net::c07s::run(&mut ctx, true, true); } c07_meta(&mut ctx) }
        "C11" => { vh::router::props::c11_router(&mut ctx); if !ctx.failed() { vh::net::c11::run_net(&mut ctx); } if !ctx.failed() { vh::net::c01f::run(&mut ctx); } c11_meta(&mut ctx) }
        "C12" => { vh::net::c12::run(&mut ctx); if !ctx.failed() { vh::net::c12r::run(&mut ctx, "real-server-outages", false); } ctx.rule.push_str("; leg real-server-outages: the real server, the client under test behind a UDP relay owned by the harness, the counterpart connected directly; an outage black-holes the relay in both directions for 16-19 s (longer than the 10 s QUIC idle timeout, so client and server both drop the connection) while the stream is idle or in use; after the path works again each of the four stream kinds must work again within 45 s (publisher: accepted items arrive, in order; subscriber: a publisher that keeps publishing is heard; requestor and its clones: own replies, also concurrently against a replier answering in reverse order; replier: a requestor connected throughout is answered), 1-2 outages per case"); }
        "C13" => vh::pure::c13::run(&mut ctx),
        "C14" => vh::pure::c14::run(&mut ctx),
        "C15" => vh::net::c15::run(&mut ctx),
        "C16" => { vh::router::props::c16(&mut ctx); if !ctx.failed() { vh::net::c16n::run(&mut ctx); } }
        "C17" => { vh::net::c17::run(&mut ctx); if !ctx.failed() { vh::router::massreg::run(&mut ctx, "C17"); } ctx.rule.push_str("; leg registration-queue-drain (child process): a router that has been stuck finds 1-40000 registrations queued (each through a sender of its own, as the waiting handle_stream tasks have) and is then polled on a thread with a tokio worker's 2 MiB stack; the process must survive and every queued peer must be served"); }
        _ => { eprintln!("unknown property {id}"); std::process::exit(2) }
    }
    std::process::exit(ctx.finish());
}

fn replay(id: &'static str, leg: &str, case: &serde_json::Value) -> i32 {
    if leg.starts_with("ps-") { return vh::router::props::replay_ps(id, case); }
    if leg.ends_with("-direct") { return vh::router::props::replay_d(id, case); }
    if id == "C03" { return vh::net::c03::replay(id, case); }
    if leg == "calls-after-real-outage" || leg == "real-server-outages" { return vh::net::c12r::replay(id, case); }
    if id == "C04" { return vh::net::c04::replay(id, case); }
    if id == "C05" { return vh::pure::c05::replay(id, leg, case); }
    if (id == "C07" || id == "C01") && (leg == "server-names" || leg == "isolation") { return vh::net::c07s::replay(id, leg, case); }
    if id == "C07" && leg == "grammar" { return vh::pure::c07::replay(id, case); }
    if id == "C14" { return vh::pure::c14::replay(id, case); }
    if id == "C06" && leg == "e2e-subscriber" { return vh::net::c06n::replay(id, case); }
    if id == "C06" { return vh::pure::c06::replay(id, case); }
    if id == "C11" && leg == "stream-scripts" { return vh::net::c11::replay(id, case); }
    if leg == "registration-queue-drain" { return vh::router::massreg::replay(id, case); }
    if id == "C17" { return vh::net::c17::replay(id, case); }
    if id == "C15" { return vh::net::c15::replay(id, case); }
    if id == "C10" && leg == "client-repliers" { return vh::net::c10c::replay(id, case); }
    if id == "C01" && leg == "backpressure-loopback" { return vh::net::c01n::replay(id, case); }
    if leg == "first-registrations-loopback" { return vh::net::c01f::replay(id, case); }
    if id == "C09" && leg == "idle-cpu-loopback" { return vh::net::c09n::replay(id, case); }
    if id == "C16" && leg == "sigint-loopback" { return vh::net::c16n::replay(id, case); }
    if id == "C16" && leg == "ps-close-during-poll" { return vh::core::replay_case::<vh::router::closepoll::Case>(id, case, 4, vh::router::closepoll::run_case); }
    if id == "C16" && leg == "rr-close-during-poll" { return vh::core::replay_case::<vh::router::closepoll::Case>(id, case, 4, vh::router::closepoll::run_case_rr); }
    if id == "C02" && leg == "backpressure-loopback" { return vh::net::c02n::replay(id, case); }
    if id == "C12" { return vh::net::c12::replay(id, case); }
    if id == "C13" { return vh::pure::c13::replay(id, case); }
    if leg.starts_with("rr-") { return vh::router::props::replay_rr(id, leg, case); }
    eprintln!("no replay handler for leg {leg}");
    2
}

fn c11_meta(ctx: &mut Ctx) {
    ctx.rule = "(a) scripts of 1-4 stream opens on a pool of 3 topics, some already used in the other messaging pattern, against a fresh real server: first frame of any of the eight kinds (registrations with valid and grammar-violating names; Message, BatchMessage, Error, Ok), followed by 0-5 frames of any kind incl. requests sized within 64 bytes of the wire limit (they fit until the server adds its routing tag) and replies with bogus tags; every accepted stream is probed for real service in its role, every touched topic is probed afterwards with well-behaved peers, and a process-wide panic hook watches the server tasks; (b) the same frame mixes fed straight into the real req/rep router with mock peers; (b2) the same while peers' sinks fail at poll_ready/start_send/poll_flush and whole connections go away (leg rr-frames-with-dying-peers: a peer that dies between its frame and the answer to it must not take the router down); non-trivial = the script contains a frame kind the role never sends, a cross-pattern registration, a non-registration first frame, a second replier, or a request near the limit".into();
    ctx.assumptions.push("authenticated peer, well-formed frames only (malformed bytes are C06)".into());
    ctx.assumptions.push("a second replier is answered Ok and then explicitly refused with REPLIER_ALREADY_BOUND: an explicit refusal, not a silent abandonment".into());
}

fn c07_meta(ctx: &mut Ctx) {
    ctx.rule = "(a) strings for TopicName::try_from / (namespace, topic) pairs for create(): valid names with lengths concentrated on 2,3,63,64,65, one-edit invalid neighbours (illegal ASCII character anywhere, missing leading '/', third component, empty component, trailing newline), reserved-word placements (selium, seliumX, Selium, xselium, in the topic part), multi-byte first characters and multi-byte characters elsewhere, arbitrary Unicode; oracle = hand-written reference grammar (exact in both directions for ASCII; structural violations must be rejected for any Unicode; non-ASCII word characters are a gray zone), no panic, display round-trip, components, create() == try_from() == is_valid(); (b) the same (namespace, topic) pairs put on the wire with _create_unchecked in all four registration kinds against the real server: Error(INVALID_TOPIC_NAME) iff the reference rejects, else Ok; (c) 2-3 distinct valid names from confusable families (dash/underscore moved across the slash, swapped parts, case differences, shared prefixes/suffixes) used concurrently on one server with 1-2 publishers and subscribers each and tagged traffic: every subscriber receives exactly its own topic's messages, per publisher in order, nothing foreign; non-trivial = a string within one edit of the accept/reject boundary or containing a multi-byte character, a rejected wire name, or an isolation case".into();
    ctx.assumptions.push("non-ASCII word characters: either verdict accepted (the regex \\w is Unicode-aware, the statement says 'letters, digits' without settling scripts)".into());
}

/// returns (replayed file names, failures)
fn regressions(id: &'static str) -> (Vec<String>, usize) {
    let dir = std::path::Path::new(vh::core::VERIF_DIR).join("findings");
    let mut names = vec![];
    let mut fails = 0;
    let Ok(rd) = std::fs::read_dir(&dir) else { return (names, 0) };
    let mut files: Vec<_> = rd.filter_map(|e| e.ok()).map(|e| e.path()).filter(|p| p.extension().map_or(false, |x| x == "json")).collect();
    files.sort();
    for f in files {
        let Ok(txt) = std::fs::read_to_string(&f) else { continue };
        let Ok(v) = serde_json::from_str::<serde_json::Value>(&txt) else { continue };
        if v["property"].as_str() != Some(id) { continue; }
        let leg = v["leg"].as_str().unwrap_or("").to_string();
        std::env::set_var("VERIF_REPLAY_PATH", f.display().to_string());
        let rc = replay(id, &leg, &v["case"]);
        std::env::remove_var("VERIF_REPLAY_PATH");
        names.push(f.file_name().unwrap().to_string_lossy().into_owned());
        if rc == 1 { fails += 1; }
    }
    (names, fails)
}

/// writes a few small valid inputs per fuzz target into /verif/corpus/<target>/
fn gen_corpus() {
    use vh::pure::c06;
    let base = std::path::Path::new(vh::core::VERIF_DIR).join("corpus");
    let w = base.join("wire");
    let d = base.join("decoders");
    let _ = std::fs::create_dir_all(&w);
    let _ = std::fs::create_dir_all(&d);
    for i in 0..12u16 {
        let mut v = vec![(i % 4) as u8, 3, 7, 1];
        v.truncate(1 + (i % 4) as usize);
        v.extend(c06::valid_encoding(c06::T_FRAMES, i, i * 37 + 5, i as u8));
        std::fs::write(w.join(format!("frames-{i}")), v).unwrap();
    }
    // fuzz target numbering: 0 frames 1 batch 2 string 3 bytes 4 record 5 vec<string> 6 map 7 gzip 8 zlib 9 zstd 10 lz4 11 sub-plain 12 sub-lz4-bincode 13 sub-gzip..
    let map: [(u8, u8); 13] = [(0, c06::T_FRAMES), (1, c06::T_BATCH), (2, c06::T_STRING), (3, c06::T_BYTES), (4, c06::T_BINCODE_RECORD), (5, c06::T_BINCODE_STRINGS), (6, c06::T_BINCODE_MAP), (7, c06::T_GZIP), (8, c06::T_ZLIB), (9, c06::T_ZSTD), (10, c06::T_LZ4), (11, c06::T_SUB_PLAIN), (12, c06::T_SUB_LZ4_BINCODE)];
    for (ft, t) in map {
        for i in 0..3u16 {
            let mut v = vec![ft];
            v.extend(c06::valid_encoding(t, i * 11 + 1, i * 5 + 2, (i + 2) as u8));
            std::fs::write(d.join(format!("t{ft}-{i}")), v).unwrap();
        }
    }
    println!("corpus written under {}", base.display());
}
