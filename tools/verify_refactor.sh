#!/bin/bash
# usage: verify_refactor.sh <worktree> <N>  -> applies <worktree>/_out/refactorN/patch.diff, runs the project's tests, reverts
WT=$1; N=$2; R=$WT/_out/refactor$N
export CARGO_TARGET_DIR=$WT/target CARGO_NET_OFFLINE=true
cd $WT || exit 9
LOG=$R/verify.log; : > $LOG
git checkout -q -- . ; git clean -fdq -e _out -e target -e certs
[ -d certs ] || cargo run -q --offline --bin selium-tools -- gen-certs >>$LOG 2>&1
git apply $R/patch.diff >>$LOG 2>&1 || { echo "$WT r$N APPLY-FAILED"; exit 1; }
cargo test --offline -p selium-protocol -p selium-std -p selium-server -p selium --lib >>$LOG 2>&1; UT=$?
cargo test --offline -p selium-std --features compression,codec --lib >>$LOG 2>&1; UT2=$?
E2E=0; for i in 1 2; do cargo test --offline -p selium-tests >>$LOG 2>&1 || E2E=1; done
git checkout -q -- . ; git clean -fdq -e _out -e target -e certs
echo "$WT r$N unit=$UT std_feat=$UT2 e2e=$E2E"
echo "{\"unit_tests_exit\": $UT, \"std_feature_tests_exit\": $UT2, \"e2e_tests_exit\": $E2E}" > $R/verify.json
