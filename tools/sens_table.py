#!/usr/bin/env python3
"""Builds the sensitivity table (DESIGN.md §14) from /verif/seeded/*/result.json and meta.json."""
import json, os, re, glob
rows = []
for d in sorted(glob.glob('/verif/seeded/*')):
    if not os.path.isdir(d): continue
    name = os.path.basename(d)
    meta = json.load(open(d + '/meta.json')) if os.path.exists(d + '/meta.json') else {}
    res = json.load(open(d + '/result.json')) if os.path.exists(d + '/result.json') else {}
    q = res.get('quick', {})
    caught = [f"{k} ({(v['clause'][0].replace('leg=','').replace(' clause=', ': ') if v['clause'] else 'regression replay of the stored reproducer')})" for k, v in q.items() if v['exit'] == 1]
    missed = [k for k, v in q.items() if v['exit'] == 0]
    other = [f"{k} (exit {v['exit']})" for k, v in q.items() if v['exit'] not in (0, 1)]
    what = meta.get('needs_to_manifest') or meta.get('fix_commit_subject') or ''
    if name.startswith('revert-'):
        what = 'revert of "' + meta.get('fix_commit_subject', '') + '"'
    kind = meta.get('kind', 'defect')
    rows.append((name, kind, what, caught, missed, other))
out = []
out.append('| Seeded change | What it is / what it needs | Caught by (quick tier) | Ran silent |')
out.append('|---|---|---|---|')
for name, kind, what, caught, missed, other in rows:
    if kind != 'defect': continue
    w = what.replace('|', '/')
    if len(w) > 260: w = w[:257] + '…'
    out.append(f"| `{name}` | {w} | {'; '.join(caught) if caught else '—'} | {', '.join(missed + other) if (missed or other) else '—'} |")
ref = [r for r in rows if r[1] != 'defect']
if ref:
    out.append('')
    out.append('Behaviour-preserving changes (every check must stay silent):')
    out.append('')
    out.append('| Change | What was restructured | Checks run | Alarms |')
    out.append('|---|---|---|---|')
    for name, kind, what, caught, missed, other in ref:
        w = what.replace('|', '/')
        if len(w) > 260: w = w[:257] + '…'
        out.append(f"| `{name}` | {w} | {len(caught) + len(missed) + len(other)} | {'; '.join(caught + other) if (caught or other) else 'none'} |")
table = '\n'.join(out)
p = '/verif/DESIGN.md'
s = open(p).read()
if 'SENSITIVITY_TABLE_PLACEHOLDER' in s:
    s = s.replace('SENSITIVITY_TABLE_PLACEHOLDER', '<!-- SENS-BEGIN -->\n' + table + '\n<!-- SENS-END -->')
else:
    s = re.sub(r'<!-- SENS-BEGIN -->.*?<!-- SENS-END -->', lambda m: '<!-- SENS-BEGIN -->\n' + table + '\n<!-- SENS-END -->', s, flags=re.S)
open(p, 'w').write(s)
nd = [r for r in rows if r[1] == 'defect']
print(f"{len(nd)} seeded defects: {sum(1 for r in nd if r[3])} caught by at least one check; {sum(1 for r in nd if not r[3])} not caught; {len(ref)} behaviour-preserving changes")
