#!/usr/bin/env python3
"""collect_mutant.py <worktree> <mutantN> <seeded-name> <property> "<needs_to_manifest>"
Copies a sub-agent's verified seeded change from its scratch worktree into /verif/seeded/."""
import json, os, shutil, sys
wt, n, name, prop, needs = sys.argv[1:6]
rnd = sys.argv[6] if len(sys.argv) > 6 else "third"
src = f"{wt}/_out/mutant{n}"
dst = f"/verif/seeded/{name}"
v = json.load(open(src + "/verify.json"))
assert v["clean_demo_exit"] == 0 and v["unit_tests_exit"] == 0 and v["std_feature_tests_exit"] == 0 and v["e2e_tests_exit"] == 0 and v["mutant_demo_exit"] != 0, v
os.makedirs(dst, exist_ok=True)
shutil.copy(src + "/patch.diff", dst + "/patch.diff")
shutil.copy(src + "/README.md", dst + "/README.md")
if os.path.isdir(dst + "/demo"):
    shutil.rmtree(dst + "/demo")
shutil.copytree(src + "/demo", dst + "/demo")
meta = {
    "property": prop,
    "origin": "independent sub-agent (" + rnd + " round: told which ideas were already taken, incl. the repaired defects), given only the property text and a scratch worktree",
    "needs_to_manifest": needs,
    "confirmed_by_me": dict(how=f"in the scratch worktree {wt} (removed afterwards): demo/run.sh on the clean tree; git apply patch.diff; unit tests of the four crates; selium-std feature tests; the five e2e tests with generated certificates; demo/run.sh with the patch", **v),
}
json.dump(meta, open(dst + "/meta.json", "w"), indent=1)
print("collected", dst)
