#!/usr/bin/env python3
"""Apply a seeded change to /repo, run the given checks (quick tier unless --thorough), undo it.
usage: seeded.py <seeded-dir> [--thorough] <ID> [<ID> ...]
Writes <seeded-dir>/result.json. Never leaves /repo modified."""
import json, os, subprocess, sys, time
def main():
    args = sys.argv[1:]
    d = args[0]; tier = 'quick'
    ids = [a for a in args[1:] if not a.startswith('--')]
    if '--thorough' in args: tier = 'thorough'
    patch = os.path.join(d, 'patch.diff')
    st = subprocess.run(['git', '-C', '/repo', 'status', '--porcelain', '--untracked-files=no'], capture_output=True, text=True).stdout.strip()
    if st:
        print('refusing: /repo has local modifications:\n' + st); return 2
    r = subprocess.run(['git', '-C', '/repo', 'apply', os.path.abspath(patch)], capture_output=True, text=True)
    if r.returncode != 0:
        print('patch does not apply:', r.stderr); return 2
    results = {}
    try:
        for i in ids:
            t0 = time.time()
            p = subprocess.run(['./check', i, tier], cwd='/verif', capture_output=True, text=True, timeout=7200)
            out = p.stdout
            viol = [l for l in out.splitlines() if l.startswith('VIOLATION')]
            clause = [l.strip() for l in out.splitlines() if l.strip().startswith('leg=')]
            results[i] = {'exit': p.returncode, 'violation': viol[:1], 'clause': clause[:1], 'wall_s': round(time.time() - t0, 1)}
            print(i, p.returncode, clause[:1], f'{time.time()-t0:.0f}s', flush=True)
    finally:
        subprocess.run(['git', '-C', '/repo', 'checkout', '--', '.'])
        # files added by the patch (git clean honours .gitignore, so target/ and certs/ stay)
        subprocess.run(['git', '-C', '/repo', 'clean', '-fdq'])
        # replays written while the mutant was applied are not findings on the real tree
        subprocess.run('git -C /verif status --porcelain --untracked-files=all replays | awk \'{print $2}\' | xargs -r -I{} rm -f /verif/{}', shell=True)
    rp = os.path.join(d, 'result.json')
    old = json.load(open(rp)) if os.path.exists(rp) else {}
    old.setdefault(tier, {}).update(results)
    json.dump(old, open(rp, 'w'), indent=1)
    return 0
if __name__ == '__main__':
    sys.exit(main())
