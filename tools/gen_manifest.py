#!/usr/bin/env python3
"""Generates /verif/MANIFEST.json from the table below (single source of truth)."""
import json, os, subprocess
HERE = os.path.dirname(os.path.dirname(os.path.abspath(__file__)))

CHECKS = {
 "C01": dict(cat="exploration", tech="stateful property-based testing (proptest op sequences + bounded-exhaustive small scope) of the real pub/sub router future against a delivery reference oracle, with harness-owned mock peers and scheduler; loopback legs against the real server (isolation of confusable names, real flow-control back-pressure, simultaneous first registrations)",
     text="Generated schedules (registrations, sends, back-pressure, wake-ups) are run against the real pubsub::Topic/FanoutMany code and every subscriber's wire is compared with a per-publisher contiguous-run oracle; random search plus complete enumeration of all op sequences up to a small length. Exploration, not proof: a pass means no counterexample among the generated schedules.",
     note="Subscriber sinks are a model of FramedWrite over a flow-controlled stream; quinn itself is only exercised by the loopback legs. Cross-publisher order unconstrained.", ref="§5 C01"),

 "C02": dict(cat="exploration", tech="stateful property-based testing (proptest op sequences + bounded-exhaustive small scope) of the real request/reply router future against a routing reference model, harness-owned mock peers and scheduler",
     text="Generated histories of requests, replies (with removed/unknown/malformed/foreign routing tags), requestor-supplied tags, bind/unbind and back-pressure are run against the real reqrep::Topic + sink::Router; oracles: at-most-once/exactly-once-while-bound request delivery in requestor order with a stable unforgeable origin tag, every pulled reply for a still-connected requestor delivered exactly once to its owner only with the tag stripped, bad-tag replies delivered to nobody. Exploration, not proof.",
     note="Sinks are a model of FramedWrite; routing tags are treated as opaque learned tokens; reply order per requestor and replies buffered at shutdown are not constrained (no property claims them).", ref="§5 C02"),
 "C08": dict(cat="fault_enumeration", tech="generated fault injection (which peer x which Sink operation x which point of the sequence) on mock peers, at three levels: FanoutMany/Router driven directly as Sinks and both router futures; healthy-peer delivery oracle + probe exchange",
     text="Every (operation x sibling position x router) class is generated thousands of times per quick run; healthy siblings must satisfy the full C01/C02 delivery oracle over the whole history, the aggregate sink must never error or panic, and after a replier failure a fresh replier must bind and serve a probe exchange.",
     note="A failed sink keeps failing and wakes its waiter (as a broken QUIC stream does); 'conn' faults also error+end the peer's inbound stream.", ref="§5 C08"),
 "C09": dict(cat="exploration", tech="stateful PBT of both router futures under a strictly wake-driven harness executor with an inner-poll counter (spin bound) and a quiescence oracle; exhaustive enumeration of one-sided populations; idle-CPU measurement on the real server (loopback); draining 1-40000 queued registrations in a child process on a 2 MiB stack",
     text="The harness owns every wake-up: the router is re-polled only when it woke its waker. Spin = more mock calls inside one poll than max(50000,16*(work+2)*(peers+4)); sleeping on undone work = at quiescence some registered stream still has queued items, some healthy sink is unflushed, some registration was not processed, or closing the channel does not complete the future.",
     note="A loop that calls no mock is only caught by the 120 s watchdog (exit 2). Mocks wake exactly the last waker they were given.", ref="§5 C09"),
 "C10": dict(cat="exploration", tech="stateful PBT of the request/reply router against a single-binding reference model (FIFO registration, settle-separated certainty), incl. blocked rejected-replier sinks, plus bounded-exhaustive small scope and a probe exchange; one leg with failing sinks (unclean departures)",
     text="Sequences of replier registrations/departures interleaved with traffic; a replier registered while another is surely bound must see exactly [Error(REPLIER_ALREADY_BOUND)] then a completed close and no request; a replier registered after all earlier ones surely left must be bound and served; requests never reach two repliers; no half-rejected replier in any interleaving.",
     note="'Surely' means separated by a Settle with no sink blocked; in between either verdict (bound / properly rejected) is accepted.", ref="§5 C10"),
 "C16": dict(cat="exploration", tech="stateful PBT with the registration-channel close injected at a generated point of router histories (both routers), termination + flush-before-finish oracle, also with subscriber sinks failing before/during the final flush, close inside a poll, bounded-exhaustive small scope; SIGINT against the real server (loopback)",
     text="close_channel() (what Server::shutdown calls) is injected at any point (idle, right after a registration, with buffered items and blocked sinks, one-sided populations); once sinks accept data the future must complete within a bounded number of polls and, for pub/sub, everything pulled from a publisher must be on every healthy adopted subscriber's wire.",
     note="Server::shutdown itself is exercised by the sigint-loopback leg (the harness raises SIGINT in-process); for req/rep only termination is claimed.", ref="§5 C16"),

 "C05": dict(cat="exploration", tech="round-trip and chunking-invariance property-based testing of the wire codec over generated frames of all eight kinds, sizes computed to sit exactly at the limit, adversarial bare headers; libFuzzer target with the oracle inside (thorough)",
     text="encode appends exactly 9+get_length() bytes with a truthful big-endian prefix and type byte; decode of those bytes yields an equal frame and consumes exactly them; any chunking of a concatenated stream (incl. a trailing partial frame) decodes to the same sequence; over-limit payloads are refused by the encoder without writing, over-limit length prefixes by the decoder with only the 9 header bytes present; unbatch(batch(v)) == v.",
     note="Sizes far beyond the limit are represented by length fields only.", ref="§5 C05"),
 "C06": dict(cat="exploration", tech="mutation-based property-based testing of every decoder and the client decode pipelines inside a child process with a counting allocator (abort/OOM attributable to the input); libFuzzer with ASan and malloc limit (thorough)",
     text="Random bytes and valid encodings that are truncated, bit-flipped, spliced and given adversarial length/count fields are fed to frame decoding, unbatching, the three payload codecs, the five decompressors and the subscriber/requestor pipelines; the worker must survive, not panic and not request memory beyond a fixed cap plus 32x(input+decoded size).",
     note="'Unrelated to input size' is operationalised by caps of 64 MiB (own decoders) / 512 MiB (pipelines with a decompression library).", ref="§5 C06"),
 "C07": dict(cat="exploration", tech="differential property-based testing of TopicName parsing/creation against a hand-written reference grammar over generated boundary strings and arbitrary Unicode; wire-level registration PBT against the real server (isolation, INVALID_TOPIC_NAME, nothing served after a refusal)",
     text="For all-ASCII strings the verdict must equal the reference exactly (both directions); for non-ASCII strings structural violations must be rejected and no call may panic; accepted names print back, components and is_valid()/create() agree.",
     note="Non-ASCII word characters are a deliberate gray zone (regex \\w is Unicode-aware; the statement does not settle it).", ref="§5 C07"),
 "C13": dict(cat="exploration", tech="property-based testing of BackoffStrategy schedules against an exact 128-bit reference law with saturation semantics",
     text="Every generated configuration must yield exactly max_attempts items numbered from 1 whose delays equal the law (exact for constant/linear, 2^-30 relative for exponential) clamped by the maximum delay, saturating instead of panicking or wrapping on overflow.",
     note="Two lenient bands (intermediate power overflow only; within 2^-30 of Duration::MAX) accept either the exact or the saturated value.", ref="§5 C13"),
 "C14": dict(cat="exploration", tech="round-trip property-based testing over payload x algorithm x level, codec values, and the wire composition; invalid-input rejection",
     text="decompress(compress(x)) == x for generated payload shapes and every supported algorithm/mode/level incl. presets, decode(encode(v)) == v for the three codecs, the full encode->batch->compress->decompress->unbatch->decode composition, and invalid UTF-8 / truncated bincode must be errors.",
     note="Levels outside the libraries' documented ranges are out of domain.", ref="§5 C14"),

 "C03": dict(cat="exploration", tech="configuration x workload property-based testing through the real client library and the real server over loopback QUIC: round-trip oracle with probe warm-up, in-band end marker and liveness probe; Publisher::duplicate() at generated points",
     text="Generated client configurations (codec x compression algorithm/level x batching size/interval x 1-3 subscribers) and workloads (item counts around the batch size, payload sizes from 0 to just under the frame limit) are published through selium::Publisher and must be yielded by every warmed-up selium::Subscriber exactly, in order, once; finish() must return Ok and everything accepted before it must arrive; the items of a duplicated publisher arrive exactly once and nothing of the original's is repeated.",
     note="Real multi-threaded runtime and UDP: the oracle is timing-independent; 'did not arrive' is only a violation when a later probe on the same path did arrive. Batch sizes above 100000 and batches over the frame limit are outside the generated domain.", ref="§5 C03"),

 "C04": dict(cat="exploration", tech="concurrent-call property-based testing of the real Requestor (streams x clones x calls) through the real server against a scripted wire-level replier (permuted, duplicated, late and missing replies) and, in part of the cases, a raw requestor forging the client streams' origin tag and request ids; reply = f(request) oracle; a leg with calls on clones after a recovered dead-path outage",
     text="Every call that returns Ok must carry f(its own request) whatever the reply order and however ids collide across streams; never/late answered calls must fail with the timeout error no earlier than the timeout and a late reply must not satisfy a later call; answered calls on long-timeout streams must succeed; after an outage that both ends noticed, the requestor and its clones each get their own reply from a replier answering in reverse order.",
     note="Real runtime and UDP; on 400 ms-timeout streams a prompt reply may lose the race under load, so both outcomes are accepted there. Lateness is event-triggered, not a real-time distribution.", ref="§5 C04"),
 "C12": dict(cat="fault_enumeration", tech="generated outage scripts (cut point x failing attempts x failure mode x repetition) against a scripted fake server, exact reconnect-attempt accounting for the real client library, requestor clones recovering while a sibling's call is in flight; plus generated dead-path outages (UDP relay black-holed past the QUIC idle timeout) between the real client and the real server",
     text="For all four stream kinds the connection is cut at generated points; each outage has a scripted number of failing reconnect attempts (dropped connection or retryable refusal) or a non-retryable answer. The fake server counts registrations: k+1 on recovery with an identical registration frame and working traffic afterwards, exactly max_attempts then too-many-retries, immediate report of an unrecoverable answer; more outages than max_attempts distinguishes per-outage from lifetime budgets. Against the real server, behind a relay that drops everything for 16-19 s, every stream kind (and requestor clones calling concurrently) must work again within 45 s after the path is back.",
     note="Attempt accounting uses the scripted server with connection closes; recovery against the real server uses silent packet loss in both directions (one or two outages per case).", ref="§5 C12"),

 "C11": dict(cat="exploration", tech="frame-script property-based testing against a fresh real server with raw wire peers (service probes per accepted stream, post-hoc health probes per topic, process-wide panic hook) plus stateful PBT of the real req/rep router fed with non-message and near-limit frames, also while peers' sinks fail and connections go away; half-written first frames; simultaneous first registrations on new topics",
     text="Generated scripts of stream opens (all eight first-frame kinds, valid/invalid names, topics already used in the other pattern) and mid-stream frames of any kind incl. requests that only fit the wire limit before the routing tag is added; every stream must end up served in its role (verified by an exchange through that very stream) or explicitly refused with an error frame (which the client library reports from open()); no server task may panic and every touched topic must still serve fresh well-behaved peers.",
     note="Authenticated peer, well-formed frames only. 'Ok' precedes adoption by the router, so the harness settles bindings with probe exchanges before relying on their order.", ref="§5 C11"),
 "C17": dict(cat="fault_enumeration", tech="generated stall + registration-queue overflow on one topic of a fresh real server (non-reading subscriber, flooding publishers, b registrations before and n after the stall, n around and above the queue capacity, peers sharing a few connections or bringing one each), cross-topic probe with raw peers (fresh connections, the stuck publishers' connection, the connections with queued registrations) and the client library; variant where the stalled client's whole connection is out of flow-control credit; a Client waiting on the stalled topic using another topic; in a child process, draining 1-40000 queued registrations on a 2 MiB stack",
     text="After topic A is provably stalled (its publishers are back-pressured) and more registrations than the router's queue holds are made on it, a publisher/subscriber pair on topic B (raw and through the client library) must still register and exchange a message; a control exchange on B before the stall must have succeeded in the same case.",
     note="One stall mechanism; the violating behaviour is a dead-lock, so the 12 s deadline is not a race.", ref="§5 C17"),

 "C15": dict(cat="exploration", tech="complete enumeration of the identity matrix (client identity x server identity x stream kind) with freshly generated keys per run, against the real server and client library / a raw certificate-less peer; CA-B identities are PEM full-chain files from a --no-expiry set, CA-A identities single DER files from a default set renewed in place eight times",
     text="Exactly the pairing where both sides hold certificates from the generated CA registers streams and completes an exchange; a client with a certificate from another CA, a self-signed one or none is never answered Ok and nothing it publishes reaches a trusted subscriber; a client never talks to a server whose certificate comes from another CA (isolated by a server that still verifies clients against the trusted CA).",
     note="Finite configuration space enumerated completely (exhaustive: true); expiry, revocation and key-usage variants are outside the property.", ref="§5 C15"),
}
PENDING = {}
ALL = ["C%02d" % i for i in range(1, 18)]

def main():
    checks = []
    for pid in ALL:
        if pid not in CHECKS: continue
        c = CHECKS[pid]
        checks.append({
            "property_id": pid,
            "quick_cmd": f"./check {pid} quick",
            "thorough_cmd": f"./check {pid} thorough",
            "evidence_file": f"/verif/evidence/{pid}.json",
            "replay_cmd_template": f"./check {pid} --replay {{path}}",
            "engine": "harness",
            "level_claimed": {"category": c["cat"], "text": c["text"], "design_ref": c["ref"]},
            "level_note": c["note"],
            "technique": c["tech"],
        })
    na = [{"property_id": p, "reason": PENDING.get(p, "check under construction in this session: not yet claimed (the technique applies; see DESIGN.md)")} for p in ALL if p not in CHECKS]
    m = {
        "version": 1,
        "setup_cmd": "cd /verif/harness && CARGO_NET_OFFLINE=true cargo build --release --offline",
        "hooks": {
            "guard": "selium_verif",
            "enable": "no source hooks are needed: the harness drives public constructors (Topic::pair, FanoutMany, Router, Server::try_from) of /repo directly; the guard name is reserved and unused",
            "baseline_off_cmd": "cd /repo && cargo test --workspace --no-fail-fast --offline",
            "source_commits": [],
            "add_only": True,
        },
        "engines": [{"name": "harness", "path": "/verif/harness", "serves_properties": [c["property_id"] for c in checks],
                     "kind_free_text": "Rust binary `verif`: proptest TestRunner used as a library (fixed seed from VERIF_SEED, shrinking, replay files), bounded-exhaustive enumeration, libFuzzer targets for byte-level properties"}],
        "checks": checks,
        "not_applicable": na,
        "notes": "All checks rebuild from /repo's working tree through path dependencies. Exit 0 held / 1 VIOLATION / 2 inconclusive (build failure, watchdog). Known findings: /verif/KNOWN_FINDINGS.txt.",
    }
    if not na: del m["not_applicable"]
    json.dump(m, open(os.path.join(HERE, "MANIFEST.json"), "w"), indent=1)
    print("wrote MANIFEST.json with", len(checks), "checks;", len(na), "not claimed")

if __name__ == "__main__":
    main()
