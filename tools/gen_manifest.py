#!/usr/bin/env python3
"""Generates /verif/MANIFEST.json from the table below (single source of truth)."""
import json, os, subprocess
HERE = os.path.dirname(os.path.dirname(os.path.abspath(__file__)))

CHECKS = {
 "C01": dict(cat="exploration", tech="stateful property-based testing (proptest op sequences + bounded-exhaustive small scope) of the real pub/sub router future against a delivery reference oracle, with harness-owned mock peers and scheduler",
     text="Generated schedules (registrations, sends, back-pressure, wake-ups) are run against the real pubsub::Topic/FanoutMany code and every subscriber's wire is compared with a per-publisher contiguous-run oracle; random search plus complete enumeration of all op sequences up to a small length. Exploration, not proof: a pass means no counterexample among the generated schedules.",
     note="Subscriber sinks are a model of FramedWrite over a flow-controlled stream; quinn itself is only exercised by the loopback legs. Cross-publisher order unconstrained.", ref="§5 C01"),
}
PENDING = {}
ALL = ["C%02d" % i for i in range(1, 18)]

def main():
    checks = []
    for pid in ALL:
        if pid not in CHECKS: continue
        c = CHECKS[pid]
        checks.append({
            "property_id": pid,
            "quick_cmd": f"./check {pid} quick",
            "thorough_cmd": f"./check {pid} thorough",
            "evidence_file": f"/verif/evidence/{pid}.json",
            "replay_cmd_template": f"./check {pid} --replay {{path}}",
            "engine": "harness",
            "level_claimed": {"category": c["cat"], "text": c["text"], "design_ref": c["ref"]},
            "level_note": c["note"],
            "technique": c["tech"],
        })
    na = [{"property_id": p, "reason": PENDING.get(p, "check under construction in this session: not yet claimed (the technique applies; see DESIGN.md)")} for p in ALL if p not in CHECKS]
    m = {
        "version": 1,
        "setup_cmd": "cd /verif/harness && CARGO_NET_OFFLINE=true cargo build --release --offline",
        "hooks": {
            "guard": "selium_verif",
            "enable": "no source hooks are needed: the harness drives public constructors (Topic::pair, FanoutMany, Router, Server::try_from) of /repo directly; the guard name is reserved and unused",
            "baseline_off_cmd": "cd /repo && cargo test --workspace --no-fail-fast --offline",
            "source_commits": [],
            "add_only": True,
        },
        "engines": [{"name": "harness", "path": "/verif/harness", "serves_properties": [c["property_id"] for c in checks],
                     "kind_free_text": "Rust binary `verif`: proptest TestRunner used as a library (fixed seed from VERIF_SEED, shrinking, replay files), bounded-exhaustive enumeration, libFuzzer targets for byte-level properties"}],
        "checks": checks,
        "not_applicable": na,
        "notes": "All checks rebuild from /repo's working tree through path dependencies. Exit 0 held / 1 VIOLATION / 2 inconclusive (build failure, watchdog). Known findings: /verif/KNOWN_FINDINGS.txt.",
    }
    if not na: del m["not_applicable"]
    json.dump(m, open(os.path.join(HERE, "MANIFEST.json"), "w"), indent=1)
    print("wrote MANIFEST.json with", len(checks), "checks;", len(na), "not claimed")

if __name__ == "__main__":
    main()
