#!/usr/bin/env python3
"""collect_refactor.py <worktree> <N> <seeded-name> "<area>" : copies a verified behaviour-preserving change into /verif/seeded/."""
import json, os, shutil, sys, re
wt, n, name, area = sys.argv[1:5]
src = f"{wt}/_out/refactor{n}"
dst = f"/verif/seeded/{name}"
v = json.load(open(src + "/verify.json"))
assert v["unit_tests_exit"] == 0 and v["std_feature_tests_exit"] == 0 and v["e2e_tests_exit"] == 0, v
os.makedirs(dst, exist_ok=True)
shutil.copy(src + "/patch.diff", dst + "/patch.diff")
shutil.copy(src + "/README.md", dst + "/README.md")
title = ""
for l in open(src + "/README.md"):
    l = l.strip()
    if l:
        title = re.sub(r"^#+\s*", "", l)
        break
meta = {"kind": "behaviour-preserving", "property": None,
        "origin": "independent sub-agent (second refactor round: told what had been done) asked for an alternative correct implementation of: " + area,
        "needs_to_manifest": title,
        "confirmed_by_me": dict(how="patch applied in the scratch worktree: unit tests of the four crates, selium-std feature tests, the five e2e tests twice; then every check of /verif is run against it (quick tier)", **v)}
json.dump(meta, open(dst + "/meta.json", "w"), indent=1)
print("collected", dst, "|", title[:100])
