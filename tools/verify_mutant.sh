#!/bin/bash
# usage: verify_mutant.sh C01 1   -> verifies /tmp/wt/C01/_out/mutant1 in worktree /tmp/wt/C01
ID=$1; N=$2; WT=/tmp/wt/${WTNAME:-$ID}; M=$WT/_out/mutant$N
export CARGO_TARGET_DIR=$WT/target CARGO_NET_OFFLINE=true
cd $WT || exit 9
LOG=$M/verify.log; : > $LOG
git checkout -q -- . 2>>$LOG
[ -d certs ] || cargo run -q --offline --bin selium-tools -- gen-certs >>$LOG 2>&1
echo "== clean demo" >>$LOG
bash $M/demo/run.sh >>$LOG 2>&1; CLEAN=$?
git checkout -q -- . ; 
echo "== apply" >>$LOG
git apply $M/patch.diff >>$LOG 2>&1 || { echo "$ID m$N APPLY-FAILED"; exit 1; }
echo "== unit tests" >>$LOG
cargo test --offline -p selium-protocol -p selium-std -p selium-server -p selium --lib >>$LOG 2>&1; UT=$?
cargo test --offline -p selium-std --features compression,codec --lib >>$LOG 2>&1; UT2=$?
cargo test --offline -p selium-tests --test streams >>$LOG 2>&1; E2E=$?
echo "== mutant demo" >>$LOG
bash $M/demo/run.sh >>$LOG 2>&1; MUT=$?
git checkout -q -- .
echo "$ID m$N clean_demo=$CLEAN unit=$UT std_feat=$UT2 e2e=$E2E mutant_demo=$MUT"
echo "{\"clean_demo_exit\": $CLEAN, \"unit_tests_exit\": $UT, \"std_feature_tests_exit\": $UT2, \"e2e_tests_exit\": $E2E, \"mutant_demo_exit\": $MUT}" > $M/verify.json
