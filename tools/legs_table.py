#!/usr/bin/env python3
"""Regenerates the per-property legs table of DESIGN.md §11 from /verif/evidence/*.json (quick tier)."""
import json, glob, re
rows = []
for f in sorted(glob.glob('/verif/evidence/C*.json')):
    e = json.load(open(f))
    legs = e.get('coverage', {}).get('legs', {})
    parts = []
    for name, l in legs.items():
        n = l.get('evaluations', 0)
        parts.append(f"`{name}` {n:,}".replace(',', ' '))
    for k in e.get('coverage', {}):
        pass
    extra = e.get('coverage', {})
    rows.append(f"| {e['property_id']} | {', '.join(parts)} | {e.get('wall_s', 0):.0f} s |")
table = "| Check | Legs and evaluations (quick tier, seed %s) | Wall |\n|---|---|---|\n" % json.load(open('/verif/evidence/C01.json')).get('seed', 0) + "\n".join(rows)
p = '/verif/DESIGN.md'
s = open(p).read()
s = re.sub(r'<!-- LEGS-BEGIN -->.*?<!-- LEGS-END -->', lambda m: '<!-- LEGS-BEGIN -->\n' + table + '\n<!-- LEGS-END -->', s, flags=re.S)
open(p, 'w').write(s)
print(table)
